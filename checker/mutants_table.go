package main

// mutants_table.go: built-in overlay mutants.  "Expect" is a substring of the
// finding key (rule:construct) which must be reported; an empty Expect marks a
// behaviour-preserving edit on which the check must stay silent.

const (
	fIob   = "internal/iobroker/iobroker.go"
	fEv    = "internal/iobroker/events.go"
	fHsrv  = "internal/hsrv/hsrv.go"
	fHand  = "internal/hsrv/handlers.go"
	fLog   = "internal/hsrv/logger.go"
	fScr   = "internal/hsrv/script.go"
	fTmpl  = "internal/hsrv/script.tmpl"
	fSstls = "lib/sstls/sstls.go"
	fArch  = "lib/sstls/archive.go"
	fGen   = "lib/sstls/gencert.go"
	fSS    = "lib/simpleshell/simpleshell.go"
	fShell = "lib/simpleshell/shell.go"
	fUU    = "lib/uu/uu.go"
	fPerl  = "lib/shellfuncsfile/filter_perl.go"
	fSff   = "lib/shellfuncsfile/shellfuncsfile.go"
	fList  = "lib/shellfuncsfile/funclist.go"
	fOps   = "lib/opshell/opshell.go"
	fCw    = "lib/opshell/chanwriter.go"
	fMain  = "curlrevshell.go"
)

func init() {
	addMutants(
		/* C01 */
		Mutant{Property: "C01", Name: "skip-teardown-test", File: fIob, Quick: true,
			Old: `if "" == b.key && (nil != *cancelUs || nil != *cancelOther) {`, New: `if "" == b.key && (nil != *cancelUs) {`,
			Expect: "admission-table", Why: "an attempt made while the peer is still being torn down is admitted"},
		Mutant{Property: "C01", Name: "prefix-compare", File: fIob,
			Old: "if \"\" != b.key && 1 != subtle.ConstantTimeCompare(\n\t\t[]byte(key),\n\t\t[]byte(b.key),\n\t) {", New: `if "" != b.key && !strings.HasPrefix(key, b.key) {`,
			Edits:  [][3]string{{fIob, "\t\"crypto/subtle\"\n", ""}},
			Expect: "admission-table", Why: "prefix-related IDs are taken for equal"},
		Mutant{Property: "C01", Name: "key-after-unlock", File: fIob,
			Old: "\tb.key = key\n\tb.mu.Unlock()\n", New: "\tb.mu.Unlock()\n\tb.key = key\n",
			Expect: "C01.", Why: "the key is recorded outside the critical section"},
		Mutant{Property: "C01", Name: "nomore-before-lock", File: fIob,
			Old: "\tb.mu.Lock()\n\tdefer b.mu.Unlock()\n\n\t/* Make sure we're not no longer accepting connections. */\n\tif b.noMore {\n\t\treturn\n\t}\n", New: "\tif b.noMore {\n\t\treturn\n\t}\n\tb.mu.Lock()\n\tdefer b.mu.Unlock()\n",
			Expect: "guarded-by", Why: "shutdown flag read without the lock"},
		Mutant{Property: "C01", Name: "drop-refusal-notice", File: fIob,
			Old: "\t\tsl.Error(LMKeyMissing)\n\t\tb.Errorf(addr, \"Missing Key\")\n", New: "\t\tsl.Error(LMKeyMissing)\n",
			Expect: "refusal-unannounced", Why: "a refusal the operator is not told about"},
		Mutant{Property: "C01", Name: "swap-own-peer", File: fIob,
			Old: "\t\t&b.cancelOut,\n\t\t&b.cancelIn,\n\t\tLVOutput,", New: "\t\t&b.cancelIn,\n\t\t&b.cancelIn,\n\t\tLVOutput,",
			Expect: "call-site-binding", Why: "output's own slot is the input's"},
		Mutant{Property: "C01", Name: "write-before-admission", File: fIob,
			Old: "\tw io.Writer,\n\tkey string,\n) {\n\tb.connect(", New: "\tw io.Writer,\n\tkey string,\n) {\n\tio.WriteString(w, \"\")\n\tb.connect(",
			Expect: "refused-no-io", Why: "a refused stream is written to"},
		Mutant{Property: "C01", Name: "benign-plain-compare", File: fIob,
			Old: "if \"\" != b.key && 1 != subtle.ConstantTimeCompare(\n\t\t[]byte(key),\n\t\t[]byte(b.key),\n\t) {", New: `if "" != b.key && key != b.key {`,
			Edits:  [][3]string{{fIob, "\t\"crypto/subtle\"\n", ""}},
			Expect: "", Why: "plain string inequality is the same admission decision"},
		Mutant{Property: "C01", Name: "benign-reorder-tests", File: fIob,
			Old: "\t/* Need a key. */\n\tif \"\" == key {\n\t\tsl.Error(LMKeyMissing)\n\t\tb.Errorf(addr, \"Missing Key\")\n\t\treturn\n\t}\n\n\t/* Log with the proper direction. */\n\tsl = sl.With(LKDirection, dir)\n",
			New: "\t/* Log with the proper direction. */\n\tsl = sl.With(LKDirection, dir)\n\n\t/* Need a key. */\n\tif \"\" == key {\n\t\tsl.Error(LMKeyMissing)\n\t\tb.Errorf(addr, \"Missing Key\")\n\t\treturn\n\t}\n",
			Expect: "", Why: "order of independent steps"},

		/* C02 */
		Mutant{Property: "C02", Name: "drop-flush", File: fIob, Quick: true,
			Old: "\t\t\tif err := flush(); nil != err {\n\t\t\t\treturn fmt.Errorf(\"flushing line: %w\", err)\n\t\t\t}\n", New: "\t\t\t_ = flush\n",
			Expect: "write-then-flush", Why: "lines wait in the buffer"},
		Mutant{Property: "C02", Name: "continue-after-write-error", File: fIob,
			Old: "\t\t\t\treturn fmt.Errorf(\"sending line: %w\", err)\n", New: "\t\t\t\tcontinue\n",
			Expect: "errors-stop", Why: "further lines are consumed on a dead stream"},
		Mutant{Property: "C02", Name: "trim-line", File: fIob,
			Old: "\t\t\tl += \"\\n\" /* Add back newline. */\n", New: "\t\t\tl = strings.TrimSpace(l) + \"\\n\"\n",
			Expect: "payload", Why: "operator input altered"},
		Mutant{Property: "C02", Name: "benign-fprintf-free-rename", File: fIob,
			Old: "flush := func() error { return nil }", New: "flush := func() error { return error(nil) }",
			Expect: "", Why: "same no-op flush"},

		/* C03 */
		Mutant{Property: "C03", Name: "error-before-data", File: fIob, Quick: true,
			Old: "\t\t\tif 0 != n {          /* Send data if we have it. */", New: "\t\t\tif 0 != n && nil == err { /* Send data if we have it. */",
			Expect: "reader-data-before-error", Why: "data returned together with the final error is dropped"},
		Mutant{Property: "C03", Name: "alter-line", File: fIob,
			Old: "\t\t\t\t\tLine:  o.o,\n", New: "\t\t\t\t\tLine:  strings.ToValidUTF8(o.o, \"?\"),\n",
			Expect: "identity-flow", Why: "output re-encoded on the way"},
		Mutant{Property: "C03", Name: "drop-when-busy", File: fIob,
			Old: "\t\t\t\tcase <-ctx.Done(): /* Should stop. */\n", New: "\t\t\t\tcase <-ctx.Done(): /* Should stop. */\n\t\t\t\tdefault:\n",
			Expect: "handover-blocking", Why: "output dropped when the terminal lags"},

		/* C04 */
		Mutant{Property: "C04", Name: "forget-clear-key", File: fIob, Quick: true,
			Old: "\tb.mu.Lock()\n\tb.key = \"\"\n\t*cancelUs = nil\n", New: "\tb.mu.Lock()\n\t*cancelUs = nil\n",
			Expect: "release-table", Why: "stale ID survives the shell"},
		Mutant{Property: "C04", Name: "gone-unconditional", File: fIob,
			Old: "\tif nil == *cancelUs && nil == *cancelOther {\n\t\tb.Errorf(addr, \"%s\", ShellDisconnectedMessage)", New: "\tif nil == *cancelUs {\n\t\tb.Errorf(addr, \"%s\", ShellDisconnectedMessage)",
			Expect: "gone-too-early", Why: "'gone' announced twice per shell"},
		Mutant{Property: "C04", Name: "wg-add-after-unlock", File: fIob,
			Old: "\tb.wg.Add(1)\n\tdefer b.wg.Done()\n", New: "",
			Edits:  [][3]string{{fIob, "\tb.key = key\n\tb.mu.Unlock()\n", "\tb.key = key\n\tb.mu.Unlock()\n\tb.wg.Add(1)\n\tdefer b.wg.Done()\n"}},
			Expect: "waitgroup", Why: "shutdown can finish before the stream is counted"},
		Mutant{Property: "C04", Name: "bare-send-in-reader", File: fIob,
			Old: "\t\t\t\tselect {\n\t\t\t\tcase och <- outRet{err: err}:\n\t\t\t\tcase <-ctx.Done(): /* Nobody's listening. */\n\t\t\t\t\treturn\n\t\t\t\t}\n", New: "\t\t\t\toch <- outRet{err: err}\n",
			Expect: "goroutines-cancellable", Why: "reader goroutine leaks"},
		Mutant{Property: "C04", Name: "input-proxy-ignores-cancel", File: fIob,
			Old: "\t\t\t\treturn err\n\t\t\t}\n\t\t\treturn nil\n\t\t}\n\t}\n}", New: "\t\t\t\treturn err\n\t\t\t}\n\t\t\tcontinue\n\t\t}\n\t}\n}",
			Expect: "cancelled-returns", Why: "cancelling the stream does not end it"},

		/* C05 */
		Mutant{Property: "C05", Name: "hash-whole-cert", File: fSstls, Quick: true,
			Old: "\th := sha256.Sum256(b)\n", New: "\t_ = b\n\th := sha256.Sum256(cert.Raw)\n",
			Expect: "hash-chain", Why: "fingerprint of the certificate, not of its key"},
		Mutant{Property: "C05", Name: "raw-base64", File: fSstls,
			Old: "base64.StdEncoding.EncodeToString(h[:])", New: "base64.RawStdEncoding.EncodeToString(h[:])",
			Expect: "hash-chain", Why: "unpadded base64 is not what curl compares"},
		Mutant{Property: "C05", Name: "second-certificate", File: fSstls,
			Old: "\t\tCertificates: []tls.Certificate{cert},\n", New: "\t\tCertificates: []tls.Certificate{func() tls.Certificate { c, _ := GetCertificate(subject, nil, nil, lifespan, \"\"); return c }()},\n",
			Expect: "served=fingerprinted", Why: "a different key is served"},
		Mutant{Property: "C05", Name: "benign-raw-spki", File: fSstls,
			Old: "\tb, err := x509.MarshalPKIXPublicKey(cert.PublicKey)\n\tif nil != err {\n\t\treturn \"\", fmt.Errorf(\"marshalling to DER: %w\", err)\n\t}\n", New: "\tb := cert.RawSubjectPublicKeyInfo\n",
			Expect: "", Why: "the raw SPKI is the same DER"},

		/* C06 */
		Mutant{Property: "C06", Name: "reuse-sentinel", File: fIob, Quick: true,
			Old: "\tkey := b.bidirKey + string(uniq)\n", New: "\tkey := b.bidirKey\n\t_ = uniq\n",
			Expect: "fresh-per-call", Why: "all /io requests share one key again"},
		Mutant{Property: "C06", Name: "two-tokens", File: fIob,
			Old: "\t\tb.ConnectOut(ctx, sl, addr, r, key)\n", New: "\t\tb.ConnectOut(ctx, sl, addr, r, key+\"o\")\n",
			Expect: "same-value", Why: "the halves can never pair"},
		Mutant{Property: "C06", Name: "ignore-rand-error", File: fIob,
			Old: "\tif _, err := rand.Read(uniq); nil != err {\n\t\tsl.Error(LMKeyMissing, LKError, err)\n\t\tb.Errorf(\n\t\t\taddr,\n\t\t\t\"Error generating key for bidirectional connection: %s\",\n\t\t\terr,\n\t\t)\n\t\treturn\n\t}\n", New: "\trand.Read(uniq)\n",
			Expect: "generator-error-checked", Why: "a failed generator gives every request the same key"},

		/* C07 */
		Mutant{Property: "C07", Name: "header-before-param", File: fScr, Quick: true,
			Old: "\tif p := r.Form.Get(C2Param); \"\" != p {\n\t\treturn p, nil\n\t}\n\n\t/* If it's not there, try to get it as a header. */\n\tif p := r.Header.Get(C2Param); \"\" != p {\n\t\treturn p, nil\n\t}\n",
			New:    "\tif p := r.Header.Get(C2Param); \"\" != p {\n\t\treturn p, nil\n\t}\n\tif p := r.Form.Get(C2Param); \"\" != p {\n\t\treturn p, nil\n\t}\n",
			Expect: "c2-precedence", Why: "precedence swapped"},
		Mutant{Property: "C07", Name: "execute-into-response", File: fScr,
			Old: "tmpl.Execute(b, params)", New: "tmpl.Execute(w, params)",
			Expect: "no-script-on-error", Why: "partial script on template failure"},
		Mutant{Property: "C07", Name: "fallback-to-default", File: fScr,
			Old: "\t\treturn nil, fmt.Errorf(\"reading %s: %w\", s.tmplf, err)\n", New: "\t\treturn s.defTmpl, nil\n",
			Expect: "reread-per-request", Why: "a missing template silently serves the default"},
		Mutant{Property: "C07", Name: "different-ids", File: fTmpl,
			Old: "/o/{{.ID}}", New: "/o/{{.URL}}",
			Expect: "template-shape", Why: "the two streams carry different IDs"},
		Mutant{Property: "C07", Name: "base64-id", File: fScr,
			Old: "strconv.FormatUint(rand.Uint64(), 36)", New: "base64.StdEncoding.EncodeToString([]byte(strconv.FormatUint(rand.Uint64(), 36)))",
			Edits:  [][3]string{{fScr, "\t\"bytes\"\n", "\t\"bytes\"\n\t\"encoding/base64\"\n"}},
			Expect: "id-fresh-and-safe", Why: "'/' and '+' in IDs"},

		/* C08 */
		Mutant{Property: "C08", Name: "regenerate-on-any-error", File: fGen, Quick: true,
			Old: "\t\tif !errors.Is(err, fs.ErrNotExist) {\n\t\t\treturn tls.Certificate{}, fmt.Errorf(\n\t\t\t\t\"loading cached certificate: %w\",\n\t\t\t\terr,\n\t\t\t)\n\t\t}\n", New: "\t\t_ = fs.ErrNotExist\n\t\t_ = errors.Is\n",
			Expect: "only-not-exist", Why: "a damaged cache is silently replaced"},
		Mutant{Property: "C08", Name: "world-readable-key", File: fArch,
			Old: "}), 0600); nil != err {", New: "}), 0644); nil != err {",
			Expect: "owner-only", Why: "private key readable by others"},
		Mutant{Property: "C08", Name: "save-after-load", File: fGen,
			Old: "\t\tif nil == err {\n\t\t\treturn cert, nil\n\t\t}\n", New: "\t\tif nil == err {\n\t\t\tSaveCertificate(certFile, nil, nil)\n\t\t\treturn cert, nil\n\t\t}\n",
			Expect: "never-rewritten", Why: "existing cache rewritten"},

		/* C09 */
		Mutant{Property: "C09", Name: "open-request-path", File: fHand, Quick: true,
			Old: "\tf, err := os.Open(s.fdir)\n", New: "\tf, err := os.Open(s.fdir + r.URL.Path)\n",
			Expect: "no-request-derived-path", Why: "path traversal"},
		Mutant{Property: "C09", Name: "unconditional-catch-all", File: fHand,
			Old: "\tif \"\" != s.fdir {\n\t\tmux.HandleFunc(\"/\", s.fileHandler)\n\t}\n", New: "\tmux.HandleFunc(\"/\", s.fileHandler)\n",
			Expect: "route-table", Why: "files served although nothing is configured"},
		Mutant{Property: "C09", Name: "shadow-script-route", File: fHand,
			Old: "mux.HandleFunc(\"/c\", s.scriptHandler)", New: "mux.HandleFunc(\"/c\", s.fileHandler)",
			Expect: "route-table", Why: "a file answers for /c"},
		Mutant{Property: "C09", Name: "notice-after-serving", File: fHand,
			Old: "\ts.RLogf(FileColor, r, \"File requested: %s\", r.URL)\n\tf, err := os.Open(s.fdir)\n", New: "\tf, err := os.Open(s.fdir)\n",
			Edits:  [][3]string{{fHand, "\tsl.Info(LMFileRequested)\n", "\tsl.Info(LMFileRequested)\n\tdefer s.RLogf(FileColor, r, \"File requested: %s\", r.URL)\n"}},
			Expect: "notice-first", Why: "error responses go unreported"},

		/* C10 */
		Mutant{Property: "C10", Name: "sprintf-as-format", File: fLog, Quick: true,
			Old: "s.Logf(color, \"%s\", fmt.Sprintf(", New: "s.Logf(color, fmt.Sprintf(",
			Expect: "constant-format", Why: "the original defect"},
		Mutant{Property: "C10", Name: "line-as-format", File: fOps,
			Old: "s.Logf(cl.Color, cl.NoTimestamp, \"%s\", cl.Line)", New: "s.Logf(cl.Color, cl.NoTimestamp, cl.Line)",
			Expect: "C10.", Why: "every notice is re-formatted at the sink"},
		Mutant{Property: "C10", Name: "missing-argument", File: fScr,
			Old: "\t\tparams.ID,\n\t\tparams.URL,\n\t)", New: "\t\tparams.ID,\n\t)",
			Expect: "verbs-match-args", Why: "%!s(MISSING) artefact"},

		/* C11 */
		Mutant{Property: "C11", Name: "log-before-write", File: fIob, Quick: true,
			Old: "\t\t\tif _, err := io.WriteString(w, l); nil != err {", New: "\t\t\tsl.Info(LMShellIO, LKData, l)\n\t\t\tif _, err := io.WriteString(w, l); nil != err {",
			Edits:  [][3]string{{fIob, "\t\t\tsl.Info(LMShellIO, LKData, l)\n\t\tcase <-ctx.Done(): /* Something else told us to stop. */", "\t\tcase <-ctx.Done(): /* Something else told us to stop. */"}},
			Expect: "input-record", Why: "undelivered lines logged"},
		Mutant{Property: "C11", Name: "text-handler", File: fMain,
			Old: "slog.NewJSONHandler(lw, nil)", New: "slog.NewTextHandler(lw, nil)",
			Expect: "wiring", Why: "log is not JSON"},
		Mutant{Property: "C11", Name: "drop-disconnect-record", File: fIob,
			Old: "\t\tsl.Error(LMDisconnected, LKError, err)\n", New: "",
			Expect: "disconnect-record", Why: "failed streams leave no disconnect record"},

		/* C12 */
		Mutant{Property: "C12", Name: "swap-bool-flags", File: fMain, Quick: true,
			Old: "\t\t*printIPv6,\n\t\t*oneShell,\n", New: "\t\t*oneShell,\n\t\t*printIPv6,\n",
			Expect: "flag-wiring", Why: "adjacent bools swapped"},
		Mutant{Property: "C12", Name: "close-on-disconnect", File: fHsrv,
			Old: "\t\t\tif !s.oneShell {\n\t\t\t\ts.printCallbackHelp()\n\t\t\t}\n", New: "\t\t\tif !s.oneShell {\n\t\t\t\ts.printCallbackHelp()\n\t\t\t} else {\n\t\t\t\ts.l.Close()\n\t\t\t}\n",
			Expect: "who-closes-listener", Why: "listener closed on the wrong event"},
		Mutant{Property: "C12", Name: "oneshell-fatal", File: fMain,
			Old: "\t\t!errors.Is(err, io.EOF) &&\n\t\t!errors.Is(err, hsrv.ErrOneShellClosed) {", New: "\t\t!errors.Is(err, io.EOF) {",
			Expect: "clean-exit", Why: "clean end of -one-shell reported as fatal"},

		/* C13 */
		Mutant{Property: "C13", Name: "default-client", File: fSS, Quick: true,
			Old: "client := new(http.Client)", New: "client := http.DefaultClient",
			Expect: "globals-untouched", Why: "the original defect"},
		Mutant{Property: "C13", Name: "truncated-compare", File: fSS,
			Old: "subtle.ConstantTimeCompare(wantFP, h[:])", New: "subtle.ConstantTimeCompare(wantFP[:8], h[:8])",
			Expect: "accept-edge", Why: "only 8 bytes of the pin are compared"},
		Mutant{Property: "C13", Name: "accept-after-loop", File: fSS,
			Old: "\t\treturn ErrNoMatchingCertificate\n", New: "\t\treturn nil\n",
			Expect: "accept-edge", Why: "any server accepted"},
		Mutant{Property: "C13", Name: "no-length-test", File: fSS,
			Old: "\tif 32 != len(wantFP) {\n\t\treturn nil, fmt.Errorf(\"decoded fingerprint not 32 bytes\")\n\t}\n", New: "",
			Expect: "malformed-refused", Why: "short pins accepted as configuration"},

		/* C14 */
		Mutant{Property: "C14", Name: "run-with-pipes", File: fShell, Quick: true,
			Old: "\treturn c.cmd.Wait()\n", New: "\treturn c.cmd.Run()\n",
			Expect: "C14.", Why: "Run with pipes"},
		Mutant{Property: "C14", Name: "wait-before-join", File: fShell,
			Old: "\tc.outw.CloseWithError(peg.Wait())\n\n\t/* Wait until everything finishes. */\n\treturn c.cmd.Wait()\n", New: "\terr := c.cmd.Wait()\n\tc.outw.CloseWithError(peg.Wait())\n\treturn err\n",
			Expect: "wait-after-join", Why: "Wait closes the pipes under the readers"},
		Mutant{Property: "C14", Name: "drop-exit-status", File: fShell,
			Old: "\treturn c.cmd.Wait()\n", New: "\tc.cmd.Wait()\n\treturn nil\n",
			Expect: "exit-status-returned", Why: "failure not reported"},

		/* C15 */
		Mutant{Property: "C15", Name: "sanitise-in-place", File: fUU, Quick: true,
			Old: "\t\t\t\tchunk = bytes.Clone(chunk)\n", New: "",
			Expect: "purity", Why: "back-ticks rewritten in the caller's source"},
		Mutant{Property: "C15", Name: "swap-shifts", File: fUU,
			Old: "\t\t\t\tchunk[0]<<4 | chunk[1]>>4,\n", New: "\t\t\t\tchunk[0]<<4 | chunk[1]>>6,\n",
			Expect: "bit-layout", Why: "wrong regrouping"},
		Mutant{Property: "C15", Name: "space-for-zero", File: fUU,
			Old: "\t\t\t\t\tenc[i] = '`'\n", New: "\t\t\t\t\tenc[i] = ' '\n",
			Expect: "symbol-tables", Why: "not Perl's alphabet"},
		Mutant{Property: "C15", Name: "line-len-60", File: fUU,
			Old: "lineLen = 45", New: "lineLen = 60",
			Expect: "framing", Why: "not byte-identical with pack('u')"},

		/* C16 */
		Mutant{Property: "C16", Name: "drop-backslash-substitution", File: fPerl, Quick: true,
			Old: "\tperlUU = strings.ReplaceAll(perlUU, backslash, safeBackslash)\n", New: "",
			Expect: "tables-agree", Why: "backslashes reach q{}"},
		Mutant{Property: "C16", Name: "stand-in-in-alphabet", File: fPerl,
			Old: `safeSingleQuote = "s"`, New: `safeSingleQuote = "B"`,
			Edits:  [][3]string{{fPerl, "}=~y/sb/", "}=~y/Bb/"}},
			Expect: "tables-agree", Why: "stand-in collides with data"},
		Mutant{Property: "C16", Name: "unquoted-args", File: fPerl,
			Old: `' perl "$@"; )}`, New: `' perl $@; )}`,
			Expect: "quoting-context", Why: "arguments re-split"},
		Mutant{Property: "C16", Name: "delete-comments", File: fPerl,
			Old: "\treturn rejoin(leadCommentLines), rejoin(lines)\n", New: "\treturn rejoin(leadCommentLines), rejoin(lines[len(leadCommentLines):])\n",
			Expect: "text-preserved", Why: "line numbers shift"},

		/* C17 */
		Mutant{Property: "C17", Name: "dot-guard-after-stat", File: fSff, Quick: true,
			Old: "\t\t/* Don't care about dotfiles. */\n\t\tif strings.HasPrefix(fileName, \".\") {\n\t\t\tcontinue\n\t\t}\n", New: "",
			Edits:  [][3]string{{fSff, "\t\t/* Convert the file. */\n\t\tif err := func() error {", "\t\tif strings.HasPrefix(fileName, \".\") {\n\t\t\tcontinue\n\t\t}\n\t\t/* Convert the file. */\n\t\tif err := func() error {"}},
			Expect: "dot-guard", Why: "a dangling dot-file symlink fails the conversion"},
		Mutant{Property: "C17", Name: "unsorted-names", File: fSff,
			Old: "\tslices.Sort(fileNames)\n", New: "",
			Expect: "candidates", Why: "order undefined"},
		Mutant{Property: "C17", Name: "last-match-wins", File: fSff,
			Old: "\t\t\tmatchedPattern = pattern\n\t\t\tbreak\n", New: "\t\t\tmatchedPattern = pattern\n",
			Expect: "first-match-wins", Why: "later pattern overrides"},
		Mutant{Property: "C17", Name: "passthrough-error", File: fSff,
			Old: "\treturn res, nil\n}", New: "\treturn res, err\n}",
			Expect: "pass-through", Why: "the second original defect"},

		/* C18 */
		Mutant{Property: "C18", Name: "escape-first-only", File: fList, Quick: true,
			Old: "strings.ReplaceAll(line, `'`, `'\\''`)", New: "strings.Replace(line, `'`, `'\\''`, 1)",
			Expect: "sanitizer-last", Why: "only the first quote escaped"},
		Mutant{Property: "C18", Name: "double-quoted-template", File: fList,
			Old: "echo '{{ . }}'", New: "echo \"{{ . }}\"",
			Expect: "template-context", Why: "wrong quoting context for the escape"},
		Mutant{Property: "C18", Name: "append-after-escape", File: fList,
			Old: "\t/* Roll into a shell function. */\n", New: "\tlines = append(lines, s)\n\t/* Roll into a shell function. */\n",
			Expect: "C18.", Why: "unescaped text joins the rows"},

		/* C19 */
		Mutant{Property: "C19", Name: "mute-logs-too", File: fOps, Quick: true,
			Old: "\ts.wL.Lock()\n\tdefer s.wL.Unlock()\n\treturn logf(", New: "\ts.wL.Lock()\n\tdefer s.wL.Unlock()\n\tif s.silenced {\n\t\treturn 0, nil\n\t}\n\treturn logf(",
			Expect: "who-is-muted", Why: "status lines suppressed"},
		Mutant{Property: "C19", Name: "unmute-without-pause", File: fOps,
			Old: "\t\tif PlainWritePause > time.Since(s.lastPlainWrite) {\n\t\t\ts.resetSilenceTimer(false)\n\t\t\treturn\n\t\t}\n", New: "",
			Expect: "unmute-guard", Why: "un-mutes during a flood"},
		Mutant{Property: "C19", Name: "forget-timer-on-mute", File: fOps,
			Old: "\t\t\t\ts.silenced = true\n\t\t\t\ts.resetSilenceTimer(true)\n", New: "\t\t\t\ts.silenced = true\n",
			Expect: "timer-armed", Why: "muted forever"},

		Mutant{Property: "C19", Name: "lock-under-terminal-lock", File: fOps,
			Old: "\t\t\tgo func() {\n\t\t\t\ts.wL.Lock()\n\t\t\t\tdefer s.wL.Unlock()\n\t\t\t\t/* Don't double-pause. */", New: "\t\t\tfunc() {\n\t\t\t\ts.wL.Lock()\n\t\t\t\tdefer s.wL.Unlock()\n\t\t\t\t/* Don't double-pause. */",
			Expect: "lock-order", Why: "the original deadlock: Shell.wL taken under the terminal's lock"},
		Mutant{Property: "C19", Name: "ctrl-j-through-writePlain", File: "lib/opshell/insert.go",
			Old: "\t\t\"Would have sent the following %d bytes:\\n%s\",\n\t\tlen(b),\n\t\tb,\n\t)\n", New: "\t\t\"Would have sent the following %d bytes:\",\n\t\tlen(b),\n\t)\n\ts.writePlain(string(b))\n",
			Expect: "who-is-muted", Why: "local text goes through the mute-aware path"},
		Mutant{Property: "C19", Name: "benign-named-method", File: fOps,
			Old: "\t\t\tgo func() {\n\t\t\t\ts.wL.Lock()\n\t\t\t\tdefer s.wL.Unlock()\n\t\t\t\t/* Don't double-pause. */", New: "\t\t\tgo func() {\n\t\t\t\ts.wL.Lock()\n\t\t\t\tdefer s.wL.Unlock()\n\t\t\t\t/* Do not pause twice. */",
			Expect: "", Why: "comment change only"},

		/* C20 */
		Mutant{Property: "C20", Name: "use-before-check", File: fMain, Quick: true,
			Old: "\tif nil != err {\n\t\tlog.Fatalf(\"Error setting up shell: %s\", err)\n\t}\n\tdefer cleanup()\n\toch <- opshell.CLine{Prompt: shell.WrapInColor(\n\t\tPrompt,\n\t\topshell.ColorCyan,\n\t)}\n",
			New:    "\toch <- opshell.CLine{Prompt: shell.WrapInColor(\n\t\tPrompt,\n\t\topshell.ColorCyan,\n\t)}\n\tif nil != err {\n\t\tlog.Fatalf(\"Error setting up shell: %s\", err)\n\t}\n\tdefer cleanup()\n",
			Expect: "use-before-error-check", Why: "the original defect"},
		Mutant{Property: "C20", Name: "fatal-after-raw-mode", File: fMain,
			Old: "\t\tshell.Logf(\n\t\t\topshell.ColorRed,\n\t\t\tfalse,\n\t\t\t\"Error setting up HTTPS service: %s\",\n\t\t\terr,\n\t\t)\n\t\treturn 2\n", New: "\t\tlog.Fatalf(\"Error setting up HTTPS service: %s\", err)\n",
			Expect: "restoration-not-bypassed", Why: "terminal left raw"},
		Mutant{Property: "C20", Name: "return-zero-on-error", File: fMain,
			Old: "\t\tlog.Printf(\"Error setting up comms between subsystems: %s\", err)\n\t\treturn 3\n", New: "\t\tlog.Printf(\"Error setting up comms between subsystems: %s\", err)\n\t\treturn 0\n",
			Expect: "setup-steps-fatal", Why: "failure exits with success"},
		Mutant{Property: "C20", Name: "new-error-without-cleanup", File: fOps,
			Old: "\tif err := s.resize(); nil != err {\n\t\tcleanup()\n", New: "\tif err := s.resize(); nil != err {\n",
			Expect: "restoration-not-bypassed", Why: "TTY left open on New's error path"},

		/* Rules added after the second round of seeded changes. */
		Mutant{Property: "C01", Name: "shutdown-flag-elsewhere", File: fIob,
			Old: "\t\tb.mu.Lock()\n\t\tb.noMore = true\n\t\tb.mu.Unlock()\n\t\t/* Wait for connections to finish. */\n", New: "\t\tgo func() { b.mu.Lock(); b.noMore = true; b.mu.Unlock() }()\n\t\t/* Wait for connections to finish. */\n",
			Expect: "shutdown-flag", Why: "the flag is set by another goroutine, so Wait may return before it"},
		Mutant{Property: "C01", Name: "benign-shutdown-defer-unlock", File: fIob,
			Old: "\t\tb.mu.Lock()\n\t\tb.noMore = true\n\t\tb.mu.Unlock()\n\t\t/* Wait for connections to finish. */\n", New: "\t\tfunc() { b.mu.Lock(); defer b.mu.Unlock(); b.noMore = true }()\n\t\t/* Wait for connections to finish. */\n",
			Expect: "", Why: "same flag store, under the lock, before Wait"},
		Mutant{Property: "C02", Name: "insert-via-copy", File: "lib/opshell/insert.go",
			Old: "n, err := io.MultiWriter(ChanWriter(s.ich), her).Write(b)", New: "n64, err := io.Copy(io.MultiWriter(ChanWriter(s.ich), her), struct{ io.Reader }{bytes.NewReader(b)})\n\tn := int(n64)",
			Edits:  [][3]string{{"lib/opshell/insert.go", "import (\n", "import (\n\t\"bytes\"\n"}},
			Expect: "insert-one-entry", Why: "io.Copy splits a large payload into several entries"},
		Mutant{Property: "C02", Name: "wrapped-writer-no-flusherror", File: fHand,
			Old: "\t\tremoteHost(r),\n\t\tw,\n\t\tr.PathValue(idParam),", New: "\t\tremoteHost(r),\n\t\tstruct{ io.Writer }{w},\n\t\tr.PathValue(idParam),",
			Edits:  [][3]string{{fHand, "import (\n", "import (\n\t\"io\"\n"}},
			Expect: "transport-writer", Why: "the wrapper hides FlushError (and Flush): flush failures go unseen"},
		Mutant{Property: "C03", Name: "shared-read-buffer", File: fIob,
			Old: "\t\t\tbuf = make([]byte, 2048)\n", New: "\t\t\tbuf = sharedOutBuf[:]\n",
			Edits:  [][3]string{{fIob, "// Broker handles I/O", "var sharedOutBuf [2048]byte\n\n// Broker handles I/O"}},
			Expect: "buffer-per-stream", Why: "two generations of reader share one buffer"},
		Mutant{Property: "C03", Name: "benign-bigger-buffer", File: fIob,
			Old: "\t\t\tbuf = make([]byte, 2048)\n", New: "\t\t\tbuf = make([]byte, 4096)\n",
			Expect: "", Why: "still a buffer of the stream's own"},
		Mutant{Property: "C11", Name: "handler-refuses-silently", File: fHand,
			Old: "func (s *Server) outputHandler(w http.ResponseWriter, r *http.Request) {\n", New: "func (s *Server) outputHandler(w http.ResponseWriter, r *http.Request) {\n\tif http.NoBody == r.Body {\n\t\treturn\n\t}\n",
			Expect: "always-reaches-broker", Why: "a refusal with no record at all"},
		Mutant{Property: "C11", Name: "benign-handler-refuses-with-record", File: fHand,
			Old: "func (s *Server) outputHandler(w http.ResponseWriter, r *http.Request) {\n", New: "func (s *Server) outputHandler(w http.ResponseWriter, r *http.Request) {\n\tif http.NoBody == r.Body {\n\t\ts.requestLogger(r).Error(\"No body\")\n\t\treturn\n\t}\n",
			Expect: "", Why: "the handler's own refusal has an error record"},
		Mutant{Property: "C20", Name: "queued-report-before-exit", File: fMain,
			Old: "\tif nil != err {\n\t\tshell.Logf(\n\t\t\topshell.ColorRed,\n\t\t\tfalse,\n\t\t\t\"Error setting up HTTPS service: %s\",\n\t\t\terr,\n\t\t)\n", New: "\tif nil != err {\n\t\tfunc(f string, v ...any) { och <- opshell.CLine{Color: opshell.ColorRed, Line: fmt.Sprintf(f, v...)} }(\n\t\t\t\"Error setting up HTTPS service: %s\",\n\t\t\terr,\n\t\t)\n",
			Expect: "setup-steps-fatal", Why: "the message is queued where nothing will ever drain it"},
	)
}
