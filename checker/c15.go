package main

// C15 — uuencode is Perl-compatible and round-trips; decoding is total and
// pure.  (Structural part; see the explanation for what is decided.)

import (
	"fmt"
	"go/token"
	"go/types"
	"sort"
	"strings"

	"golang.org/x/tools/go/ssa"
)

const uuPkg = "lib/uu"

func init() {
	register("C15", &propDef{
		Run:         checkC15,
		Explanation: "Static decision of the clauses of C15 whose truth is in the shape of the code. (1) Purity: in AppendEncode/AppendDecode and their loop-body closures every element store, copy destination and append base is classified by an alias analysis over {src, dst, fresh} with a 'capacity clipped' flag (slices.Chunk and bytes.Split yield clipped sub-slices, plain re-slicing does not): stores go only to fresh memory, append never extends an unclipped alias of src, dst is only appended to, and src/dst-rooted slices are passed only to read-only library functions. (2) Totality: every loop is a range over a slice/array or an allow-listed finite iterator, there is no recursion, channel, lock or unchecked type assertion, no division by a non-constant, the only panics are the compiler's own range-over-func guards, and — index safety — every index and slice expression of the codec is proved in bounds for all inputs by a small prover over linear terms (facts from dominating branch edges including the (len-1)&3 congruence test, lengths of re-slices/append/Clone/iterator chunks, an inductive invariant of the remaining-count cell, case splits over phis): so the decoder cannot panic on any text. (3) Bit layout, for all inputs at once: an abstract interpreter with per-bit provenance shows that the encoder's four 6-bit symbols are exactly input bits 0-5, 6-11, 12-17, 18-23 (most significant first) of each 3-byte group, and that the decoder rebuilds bytes 0,1,2 from those same bit positions — i.e. the regrouping is uuencode's and decode∘encode is the identity on the regrouping. (4) Symbol tables, exhaustively over their finite domains: the encoder maps sextet 0 to '`' and s to s+32 (Perl's pack 'u' alphabet), the decoder accepts exactly 32..95 after mapping '`' to space, and decode(symbol(s)) = s for all 64 sextets. (5) Framing constants: 45 bytes per line, length character 32+len, 3→4 grouping, zero padding, newline terminator. (6) Length bounds: the growth of dst is read off the loops (elements per append onto dst, per iteration of the constant-size slices.Chunk loops: exact for the encoder; for the decoder at most 3 bytes per full 4-byte group, groups being disjoint pieces of src) and compared, for every input length, with the arithmetic of MaxEncodedLen/MaxDecodedLen read off their SSA; both sides are quasi-linear in the length, so the comparison is decided by tabulating one period and comparing per-period increments; MaxDecodedLen must also cover the encoder's own output. Not decided: byte-for-byte identity with perl beyond the clauses above; overflow of the bounds near 2^63.",
		Assumptions: []string{"slices.Chunk yields sub-slices with capacity clipped to their length; bytes.Split likewise", "Perl's pack('u') alphabet: sextet 0 → '`', otherwise +32; 45 bytes per line"},
	})
}

// uuFuncs returns the functions (closures included) under the two API
// functions, keyed by their top-level function.
func uuFuncs(p *Prog) map[*ssa.Function]*ssa.Function {
	out := map[*ssa.Function]*ssa.Function{}
	for _, name := range []string{"AppendEncode", "AppendDecode"} {
		top := p.Func(uuPkg, "", name)
		if nil == top {
			continue
		}
		for _, f := range withAnons(top) {
			out[f] = top
		}
	}
	return out
}

type sliceInfo struct {
	roots   map[string]bool
	clipped bool
}

func (s sliceInfo) has(r string) bool { return s.roots[r] }
func (s sliceInfo) String() string {
	var rs []string
	for r := range s.roots {
		rs = append(rs, r)
	}
	sort.Strings(rs)
	c := ""
	if s.clipped {
		c = ",clipped"
	}
	return strings.Join(rs, "+") + c
}

// sliceRoots classifies a slice value.
func sliceRoots(v ssa.Value, top *ssa.Function, seen map[ssa.Value]bool) sliceInfo {
	out := sliceInfo{roots: map[string]bool{}, clipped: true}
	add := func(o sliceInfo) {
		for r := range o.roots {
			out.roots[r] = true
		}
		out.clipped = out.clipped && o.clipped
	}
	if seen[v] {
		return out
	}
	seen[v] = true
	switch x := v.(type) {
	case *ssa.Const:
		out.roots["fresh"] = true
	case *ssa.Parameter:
		fn := x.Parent()
		if fn == top {
			switch paramIndex(fn, x) {
			case 0:
				out.roots["dst"] = true
				out.clipped = false
			case 1:
				out.roots["src"] = true
				out.clipped = false
			default:
				out.roots["other"] = true
			}
			return out
		}
		/* Yield closure parameter: bound to the iterator it is handed to. */
		it := iteratorOf(fn)
		if nil == it {
			out.roots["other"] = true
			out.clipped = false
			return out
		}
		switch calleeName(it.Common()) {
		case "slices.Chunk":
			o := sliceRoots(it.Common().Args[0], top, seen)
			o.clipped = true
			add(o)
		default:
			out.roots["other"] = true
			out.clipped = false
		}
	case *ssa.Phi:
		for _, e := range x.Edges {
			add(sliceRoots(e, top, seen))
		}
	case *ssa.Slice:
		if _, isArr := x.X.Type().Underlying().(*types.Pointer); isArr {
			out.roots["fresh"] = true /* Slice of a local array. */
			return out
		}
		o := sliceRoots(x.X, top, seen)
		o.clipped = nil != x.Max
		add(o)
	case *ssa.Call:
		if b, ok := x.Common().Value.(*ssa.Builtin); ok && "append" == b.Name() {
			base := sliceRoots(x.Common().Args[0], top, seen)
			switch {
			case base.has("dst"):
				out.roots["dst"] = true
				out.clipped = false
			default:
				out.roots["fresh"] = true
			}
			if base.has("other") {
				out.roots["other"] = true
			}
			return out
		}
		switch calleeName(x.Common()) {
		case "bytes.Clone", "slices.Clone", "bytes.Repeat", "bytes.ToUpper", "bytes.ToLower", "bytes.ReplaceAll", "bytes.Replace", "bytes.Join", "bytes.ToTitle":
			/* Documented to return a copy, always. */
			out.roots["fresh"] = true
		case "bytes.TrimSpace", "bytes.TrimRight", "bytes.TrimLeft", "bytes.TrimSuffix", "bytes.TrimPrefix", "bytes.Trim":
			o := sliceRoots(x.Common().Args[0], top, seen)
			o.clipped = false
			add(o)
		case "slices.Grow", "slices.Clip":
			/* The same elements, with more (or no) spare capacity: what
			append may do to it is what it may do to the argument. */
			o := sliceRoots(x.Common().Args[0], top, seen)
			o.clipped = "slices.Clip" == calleeName(x.Common())
			add(o)
		default:
			out.roots["other"] = true
			out.clipped = false
		}
	case *ssa.MakeSlice:
		out.roots["fresh"] = true
	case *ssa.Extract:
		/* before/after of bytes.Cut (and the like): plain re-slices of
		the argument, capacity not clipped. */
		if c, ok := x.Tuple.(*ssa.Call); ok {
			switch calleeName(c.Common()) {
			case "bytes.Cut", "bytes.CutPrefix", "bytes.CutSuffix":
				o := sliceRoots(c.Common().Args[0], top, seen)
				o.clipped = false
				add(o)
				return out
			}
		}
		out.roots["other"] = true
		out.clipped = false
	case *ssa.UnOp:
		if token.MUL != x.Op {
			out.roots["other"] = true
			return out
		}
		addr := resolveFree(x.X)
		switch a := addr.(type) {
		case *ssa.Global:
			/* A package-level slice (separator constants): not src, not
			dst; never written by the codec (checked by the store rule). */
			out.roots["global"] = true
			out.clipped = false
		case *ssa.Alloc:
			sts := storesTo(a)
			if 0 == len(sts) {
				out.roots["fresh"] = true
			}
			for _, st := range sts {
				add(sliceRoots(st.Val, top, seen))
			}
		case *ssa.IndexAddr:
			/* Element of a [][]byte: bytes.Split / SplitN results. */
			if c, ok := a.X.(*ssa.Call); ok {
				switch calleeName(c.Common()) {
				case "bytes.Split", "bytes.SplitN", "bytes.SplitAfter", "bytes.Fields":
					o := sliceRoots(c.Common().Args[0], top, seen)
					o.clipped = true
					add(o)
					return out
				}
			}
			out.roots["other"] = true
			out.clipped = false
		default:
			out.roots["other"] = true
			out.clipped = false
		}
	default:
		out.roots["other"] = true
		out.clipped = false
	}
	return out
}

// iteratorOf: for a range-over-func yield closure fn, the call producing the
// iterator it is passed to.
func iteratorOf(fn *ssa.Function) *ssa.Call {
	par := fn.Parent()
	if nil == par {
		return nil
	}
	var out *ssa.Call
	eachInstr(par, func(i ssa.Instruction) {
		c, ok := i.(*ssa.Call)
		if !ok || 1 != len(c.Common().Args) {
			return
		}
		if cf, _ := closureOf(c.Common().Args[0]); cf != fn {
			return
		}
		if it, ok := c.Common().Value.(*ssa.Call); ok {
			out = it
		}
	})
	return out
}

var uuReadOnlyCallees = map[string]bool{
	"bytes.Split": true, "slices.Chunk": true, "slices.Contains": true, "bytes.Clone": true, "bytes.Equal": true,
	"bytes.IndexByte": true, "bytes.Contains": true, "bytes.HasPrefix": true, "bytes.HasSuffix": true, "bytes.Count": true,
	"slices.Index": true, "bytes.TrimSpace": true, "bytes.TrimRight": true, "bytes.TrimSuffix": true, "slices.Clone": true,
	"bytes.Cut": true, "bytes.TrimPrefix": true, "bytes.CutPrefix": true, "bytes.CutSuffix": true, "bytes.LastIndexByte": true, "bytes.Index": true,
	"bytes.ReplaceAll": true, "bytes.Replace": true, "bytes.ContainsRune": true, "bytes.ContainsAny": true, "bytes.IndexAny": true,
	"bytes.Compare": true, "bytes.EqualFold": true, "bytes.TrimLeft": true, "bytes.Trim": true, "bytes.Fields": true, "bytes.SplitN": true,
	"bytes.LastIndex": true, "bytes.IndexRune": true, "slices.Equal": true, "bytes.ToUpper": true, "bytes.ToLower": true,
	"slices.Grow": true, "slices.Clip": true,
}

func checkC15(p *Prog, r *Report) {
	rPure := r.Rule("purity", "no store, copy or append in the codec can reach the bytes of src or the existing bytes of dst")
	rShape := r.Rule("total-by-shape", "only range loops and finite iterators, no recursion/blocking/unchecked assertions/non-constant division, no explicit panics")
	rBits := r.Rule("bit-layout", "the encoder's four sextets and the decoder's three bytes are exactly uuencode's regrouping of the 24 bits, for all inputs")
	rTab := r.Rule("symbol-tables", "encoder alphabet = Perl's ('`' for 0, else +32); decoder accepts exactly that alphabet (and space) and inverts it")
	rFrame := r.Rule("framing", "45 bytes per line, length character 32+len, 3→4 grouping with zero padding, newline terminator")

	/* The round trip is of the whole script: what FromPerl encodes is what
	the file holds (C16's rule: nothing between the opened file and the
	filter limits, decodes or rewrites the bytes). */
	checkFilterFeed(p, r, r.Rule("source-to-filter", "what the Perl filter reads (and then encodes) is the file's own bytes, all of them"))

	fns := uuFuncs(p)
	if nil == p.Func(uuPkg, "", "AppendEncode") || nil == p.Func(uuPkg, "", "AppendDecode") {
		rPure.Unproven("lib/uu", token.NoPos, "AppendEncode/AppendDecode not found")
		return
	}
	var ordered []*ssa.Function
	for f := range fns {
		ordered = append(ordered, f)
	}
	sort.Slice(ordered, func(i, j int) bool { return fnName(ordered[i]) < fnName(ordered[j]) })

	/* 1. Purity. */
	nw := 0
	for _, f := range ordered {
		top := fns[f]
		r.Saw("func " + fnName(f))
		per := map[string]int{}
		eachInstr(f, func(i ssa.Instruction) {
			switch x := i.(type) {
			case *ssa.Store:
				ia, ok := x.Addr.(*ssa.IndexAddr)
				if !ok {
					return
				}
				if _, isArr := ia.X.Type().Underlying().(*types.Pointer); isArr {
					return /* Element of a local array. */
				}
				nw++
				per["store"]++
				c := fmt.Sprintf("%s:element-store#%d", fnName(f), per["store"])
				info := sliceRoots(ia.X, top, map[ssa.Value]bool{})
				switch {
				case info.has("src"):
					rPure.Bad(c, posOf(i), "an element of a slice aliasing src (%s) is overwritten: the caller's source is modified", info)
				case info.has("dst"):
					rPure.Bad(c, posOf(i), "an element of dst (%s) is overwritten: existing contents of the destination are modified", info)
				case info.has("other"):
					rPure.Unproven(c, posOf(i), "element store into a slice of unknown origin (%s)", info)
				default:
					rPure.OK(c, posOf(i), "store into fresh memory")
				}
			case *ssa.Call:
				b, isB := x.Common().Value.(*ssa.Builtin)
				if isB && "append" == b.Name() {
					nw++
					per["append"]++
					c := fmt.Sprintf("%s:append#%d", fnName(f), per["append"])
					info := sliceRoots(x.Common().Args[0], top, map[ssa.Value]bool{})
					switch {
					case info.has("src") && !info.clipped:
						rPure.Bad(c, posOf(i), "append to a slice which aliases src without clipped capacity (%s): the appended bytes are written into the caller's buffer just past the slice", info)
					case info.has("other"):
						rPure.Unproven(c, posOf(i), "append to a slice of unknown origin (%s)", info)
					default:
						rPure.OK(c, posOf(i), "append base %s", info)
					}
					return
				}
				if isB && "copy" == b.Name() {
					nw++
					per["copy"]++
					c := fmt.Sprintf("%s:copy#%d", fnName(f), per["copy"])
					info := sliceRoots(x.Common().Args[0], top, map[ssa.Value]bool{})
					if info.has("src") || info.has("dst") || info.has("other") {
						rPure.Bad(c, posOf(i), "copy into %s", info)
					} else {
						rPure.OK(c, posOf(i), "copy into fresh memory")
					}
					return
				}
				if isB {
					return
				}
				/* Passing src/dst-rooted slices to callees. */
				name := calleeName(x.Common())
				for _, a := range x.Common().Args {
					if _, isSl := a.Type().Underlying().(*types.Slice); !isSl {
						continue
					}
					info := sliceRoots(a, top, map[ssa.Value]bool{})
					if !info.has("src") && !info.has("dst") {
						continue
					}
					nw++
					per[name]++
					c := fmt.Sprintf("%s→%s#%d", fnName(f), name, per[name])
					if uuReadOnlyCallees[name] {
						rPure.OK(c, posOf(i), "read-only use of %s", info)
					} else {
						rPure.Unproven(c, posOf(i), "a slice aliasing %s is passed to %s, which is not known to be read-only", info, name)
					}
				}
			}
		})
	}
	if nw < 10 {
		rPure.Unproven("lib/uu:write-sites", token.NoPos, "only %d write/append/escape sites examined, at least 10 expected", nw)
	}

	ip := &idxProver{p: p, funcs: fns, cellLo: map[*ssa.Alloc]int64{}, chunkEq: map[*ssa.Function]int64{}}
	ip.establishChunkLengths(ordered)
	ip.establishCellInvariants(ordered)

	/* 2. Shape. */
	for _, f := range ordered {
		bad := 0
		fail := func(what string, i ssa.Instruction, format string, a ...any) {
			bad++
			rShape.Bad(fnName(f)+":"+what, posOf(i), format, a...)
		}
		for _, b := range f.Blocks {
			/* Back edges: a successor which dominates the block. */
			for _, s := range b.Succs {
				if s.Dominates(b) && !strings.HasPrefix(s.Comment, "rangeindex.loop") && !strings.HasPrefix(s.Comment, "rangeint.loop") && !isShrinkingLoop(p, s) && !isCountingLoop(s) && !isResliceLoop(ip, s) {
					if len(b.Instrs) > 0 {
						fail("loop@"+s.Comment, b.Instrs[len(b.Instrs)-1], "a loop which is not a range over a slice, array or integer (%s): termination is not evident from its shape", s.Comment)
					}
				}
			}
			for _, i := range b.Instrs {
				switch x := i.(type) {
				case *ssa.Panic:
					if "yield-invalid" != b.Comment && !strings.HasPrefix(b.Comment, "rangefunc.") && !ssa.IsUnreachableMarker(i) {
						fail("panic", i, "explicit panic")
					}
				case *ssa.Defer:
					/* A deferred function literal of the codec itself is
					code of the codec like any other (its body is examined
					with the rest); anything else deferred is not. */
					if lit, _ := closureOf(x.Common().Value); nil == lit || lit.Parent() != f {
						fail(fmt.Sprintf("%T", i), i, "%T in the codec", i)
					}
				case *ssa.Go, *ssa.Select, *ssa.Send:
					fail(fmt.Sprintf("%T", i), i, "%T in the codec", i)
				case *ssa.TypeAssert:
					if !x.CommaOk {
						fail("type-assert", i, "unchecked type assertion can panic")
					}
				case *ssa.UnOp:
					if token.ARROW == x.Op {
						fail("recv", i, "channel receive in the codec")
					}
				case *ssa.BinOp:
					if token.QUO == x.Op || token.REM == x.Op {
						if k, ok := constInt(x.Y); !ok || 0 == k {
							fail("division", i, "division by a value which is not a non-zero constant")
						}
					}
				case *ssa.Call:
					if _, isB := x.Common().Value.(*ssa.Builtin); isB {
						continue
					}
					name := calleeName(x.Common())
					switch {
					case uuReadOnlyCallees[name]:
					case strings.HasPrefix(name, "(*sync/atomic."):
						/* Counters kept for diagnostics: atomic operations
						return and cannot fail. */
					case "" == name:
						/* Dynamic call: only the iterator from slices.Chunk. */
						if it, ok := x.Common().Value.(*ssa.Call); ok && "slices.Chunk" == calleeName(it.Common()) {
							continue
						}
						fail("dynamic-call", i, "call of an unknown function value")
					default:
						if sc := x.Common().StaticCallee(); nil != sc && nil != fns[sc] {
							fail("recursion", i, "the codec calls itself")
						} else {
							rShape.Unproven(fnName(f)+"→"+name, posOf(i), "call of %s, which is not on the list of terminating, non-panicking callees", name)
							bad++
						}
					}
				}
			}
		}
		if 0 == bad {
			rShape.OK(fnName(f), f.Pos(), "range loops, finite iterators and allow-listed calls only")
		}
	}

	/* Index safety. */
	{
		rIdx := r.Rule("index-safety", "every index and slice operation of the codec is within bounds on all inputs (no run-time panic)")
		n := 0
		for _, f := range ordered {
			per := 0
			for _, s := range ip.checkFunction(f) {
				n++
				per++
				c := fmt.Sprintf("%s:%s#%d", fnName(f), strings.SplitN(s.What, "[", 2)[0], per)
				if s.OK {
					rIdx.OK(c, posOf(s.Instr), "%s in bounds", s.What)
				} else {
					rIdx.Bad(c, posOf(s.Instr), "%s: %s — on some input this index or slice expression panics", s.What, s.Why)
				}
			}
		}
		if n < 20 {
			rIdx.Unproven("lib/uu:index-sites", token.NoPos, "only %d index/slice sites found", n)
		}
		var inv []string
		for cell := range ip.cellLo {
			inv = append(inv, cell.Comment+" ≥ 0")
		}
		sort.Strings(inv)
		r.Note("index-safety: %d sites; cell invariants: %s; exact chunk lengths: %d closures", n, strings.Join(inv, ", "), len(ip.chunkEq))
	}
	checkC15Bits(p, r, rBits, fns) /* first: the framing and table rules use its verdict on the encoder's group code */
	checkC15Frame(p, r, rFrame, fns)
	checkC15Yield(p, r, r.Rule("iterators-stop", "an iterator declared in the codec's package looks at the result of every yield call (an iterator which goes on after false makes the runtime panic)"))
	checkC15ErrorLine(p, r, r.Rule("error-location", "the line number a decode error carries counts every line passed: a counter kept by hand is stepped on every way round the line loop"), fns)
	checkC15Bounds(p, r, r.Rule("length-bounds", "MaxEncodedLen and MaxDecodedLen are never below what AppendEncode / AppendDecode append, for every input length"), fns)
	checkC15Tables(p, r, rTab, fns)
}

// uuConst returns an integer constant of package uu.
func uuConst(p *Prog, name string) (int64, bool) {
	pk := p.Pkg(uuPkg)
	if nil == pk {
		return 0, false
	}
	c, ok := lookupObj(pk, name).(*types.Const)
	if !ok {
		return 0, false
	}
	var n int64
	_, err := fmt.Sscan(c.Val().ExactString(), &n)
	return n, nil == err
}

func checkC15Frame(p *Prog, r *Report, ru *Rule, fns map[*ssa.Function]*ssa.Function) {
	for name, want := range map[string]int64{"lineLen": 45, "uuOffset": 32, "encChunkLen": 4, "decChunkLen": 3} {
		got, ok := uuConst(p, name)
		switch {
		case !ok:
			ru.Unproven("const "+name, token.NoPos, "constant not found")
		case got != want:
			ru.Bad("const "+name, token.NoPos, "%s = %d; uuencode (and Perl's pack 'u') needs %d", name, got, want)
		default:
			ru.OK("const "+name, token.NoPos, "%d", got)
		}
	}
	/* Chunk sizes used. */
	enc := p.Func(uuPkg, "", "AppendEncode")
	dec := p.Func(uuPkg, "", "AppendDecode")
	var sizes = map[*ssa.Function][]int64{}
	for f, top := range fns {
		eachInstr(f, func(i ssa.Instruction) {
			if c, ok := i.(*ssa.Call); ok && "slices.Chunk" == calleeName(c.Common()) {
				if k, ok := constInt(c.Common().Args[1]); ok {
					sizes[top] = append(sizes[top], k)
				} else {
					ru.Bad(fnName(f)+":chunk-size", posOf(i), "slices.Chunk with a non-constant size")
				}
			}
		})
	}
	chk := func(top *ssa.Function, want []int64) {
		if nil == top {
			return
		}
		got := sizes[top]
		sort.Slice(got, func(i, j int) bool { return got[i] < got[j] })
		if fmt.Sprint(got) == fmt.Sprint(want) {
			ru.OK(fnName(top)+":chunking", top.Pos(), "chunk sizes %v", got)
		} else {
			ru.Bad(fnName(top)+":chunking", top.Pos(), "chunk sizes %v, expected %v", got, want)
		}
	}
	chk(enc, []int64{3, 45})
	chk(dec, []int64{4})
	/* Line framing in the encoder: first append of the per-line body is
	byte(32+len(line)), the last is '\n'; padding appends are zeros. */
	for f, top := range fns {
		if top != enc || f == enc {
			continue
		}
		it := iteratorOf(f)
		if nil == it {
			continue
		}
		k, _ := constInt(it.Common().Args[1])
		var appended [][]ssa.Value
		var appendPos []token.Pos
		eachInstr(f, func(i ssa.Instruction) {
			c, ok := i.(*ssa.Call)
			if !ok {
				return
			}
			if b, ok := c.Common().Value.(*ssa.Builtin); !ok || "append" != b.Name() {
				return
			}
			appended = append(appended, variadicElems(c.Common()))
			appendPos = append(appendPos, posOf(i))
		})
		switch k {
		case 45:
			if len(appended) < 2 {
				ru.Unproven(fnName(f)+":line-frame", f.Pos(), "per-line appends not found")
				continue
			}
			first, last := appended[0], appended[len(appended)-1]
			okLen := false
			if 1 == len(first) {
				if cv, ok := first[0].(*ssa.Convert); ok {
					if b, ok := cv.X.(*ssa.BinOp); ok && token.ADD == b.Op {
						var lenCall ssa.Value
						var off int64 = -1
						for _, o := range []ssa.Value{b.X, b.Y} {
							if n, ok := constInt(o); ok {
								off = n
							} else {
								lenCall = o
							}
						}
						if lc, ok := lenCall.(*ssa.Call); ok && 32 == off {
							if bi, ok := lc.Common().Value.(*ssa.Builtin); ok && "len" == bi.Name() {
								if pa, ok := lc.Common().Args[0].(*ssa.Parameter); ok && pa.Parent() == f {
									okLen = true
								}
							}
						}
					}
				}
			}
			if okLen {
				ru.OK(fnName(f)+":length-char", appendPos[0], "each line starts with byte(32+len(line))")
			} else {
				ru.Bad(fnName(f)+":length-char", appendPos[0], "the first byte appended for a line is not byte(32+len(line))")
			}
			if 1 == len(last) {
				if n, ok := constInt(last[0]); ok && 10 == n {
					ru.OK(fnName(f)+":newline", appendPos[len(appendPos)-1], "each line ends with '\\n'")
					continue
				}
			}
			ru.Bad(fnName(f)+":newline", appendPos[len(appendPos)-1], "the last byte appended for a line is not a single newline")
		case 3:
			/* Padding appends: constant zeros onto the chunk. */
			npad := 0
			for idx, els := range appended {
				allZero := len(els) > 0
				for _, e := range els {
					if n, ok := constInt(e); !ok || 0 != n {
						allZero = false
					}
				}
				if allZero {
					npad++
					_ = idx
				}
			}
			if encGroupProved {
				ru.OK(fnName(f)+":zero-padding", f.Pos(), "short groups are encoded as if padded with zero bytes (see bit-layout: groups of 2 and 1)")
			} else if 2 == npad {
				ru.OK(fnName(f)+":zero-padding", f.Pos(), "short groups are padded with zero bytes")
			} else {
				ru.Bad(fnName(f)+":zero-padding", f.Pos(), "%d zero-padding appends found, 2 expected (for groups of 2 and of 1 byte)", npad)
			}
		}
	}
}

// firstConstIndexBlock finds the first block of f indexing a []byte value with
// a constant, and that slice value.
func firstConstIndexBlock(f *ssa.Function) (*ssa.BasicBlock, ssa.Value) {
	for _, b := range f.Blocks {
		for _, i := range b.Instrs {
			ia, ok := i.(*ssa.IndexAddr)
			if !ok {
				continue
			}
			if _, isSl := ia.X.Type().Underlying().(*types.Slice); !isSl {
				continue
			}
			if _, ok := constInt(ia.Index); ok {
				return b, ia.X
			}
		}
	}
	return nil, nil
}

// encGroupProved is set by checkC15Bits when the encoder's group code was
// decided by symbolic evaluation (regrouping, zero padding and alphabet).
var encGroupProved bool

func checkC15Bits(p *Prog, r *Report, ru *Rule, fns map[*ssa.Function]*ssa.Function) {
	enc := p.Func(uuPkg, "", "AppendEncode")
	dec := p.Func(uuPkg, "", "AppendDecode")
	encGroupProved = false
	off, _ := uuConst(p, "uuOffset")
	for f, top := range fns {
		if top != enc || f == enc {
			continue
		}
		it := iteratorOf(f)
		if nil == it || "slices.Chunk" != calleeName(it.Common()) {
			continue
		}
		if size, _ := constInt(it.Common().Args[1]); 3 != size {
			continue
		}
		/* The function handling one group of up to three bytes. */
		c := fnName(f) + ":3→4"
		why, pos, npaths := checkEncoderGroup(f, func(v ssa.Value) bool { return isDstValue(v, enc) }, off)
		if "" == why {
			encGroupProved = true
			ru.OK(c, f.Pos(), "for groups of 3, 2 and 1 bytes and on each of %d paths the four appended symbols are '`' for a zero 6-bit group and %d + the group otherwise, the groups being input bits 0-5, 6-11, 12-17, 18-23 of the zero-padded input", npaths, off)
		} else {
			if !pos.IsValid() {
				pos = f.Pos()
			}
			ru.Bad(c, pos, "the encoder's group code does not compute uuencode's symbols: %s", why)
		}
	}
	for f, top := range fns {
		b, chunk := firstConstIndexBlock(f)
		if nil == b {
			continue
		}
		it := iteratorOf(f)
		if nil == it {
			continue
		}
		size, _ := constInt(it.Common().Args[1])
		m := newBitMachine()
		inputByte := func(k int) bv {
			v := bv{Kind: 2}
			for i := 0; i < 8; i++ {
				v.Bits[i] = pbit(8*k + i)
			}
			return v
		}
		sextet := func(k int) bv {
			v := bv{Kind: 2}
			v.Bits[0], v.Bits[1] = pZero, pZero
			for i := 0; i < 6; i++ {
				v.Bits[2+i] = pbit(6*k + i)
			}
			return v
		}
		chunkIndex := func(l *ssa.UnOp) (int, bool) {
			ia, ok := l.X.(*ssa.IndexAddr)
			if !ok || ia.X != chunk {
				return 0, false
			}
			k, ok := constInt(ia.Index)
			return int(k), ok
		}
		switch {
		case top == enc && 3 == size && false: /* superseded by checkEncoderGroup above */
			m.Input = func(l *ssa.UnOp) bv {
				if k, ok := chunkIndex(l); ok && k >= 0 && k < 3 {
					return inputByte(k)
				}
				return bvUnknown
			}
			m.run(b, nil)
			/* A local [4]byte whose elements are the sextets. */
			found := false
			var seenArr []string
			for al, arr := range m.Arrays {
				if 4 != len(*arr) {
					continue
				}
				seenArr = append(seenArr, fmt.Sprintf("%s=%s", al.Comment, bv{Kind: 3, Arr: arr}))
				ok := true
				for k := 0; k < 4; k++ {
					if (*arr)[k].Kind != 2 || (*arr)[k].Bits != sextet(k).Bits {
						ok = false
					}
				}
				if ok {
					found = true
				}
			}
			sort.Strings(seenArr)
			c := fnName(f) + ":3→4"
			if found {
				ru.OK(c, b.Instrs[0].Pos(), "for every 3-byte group the four symbols are input bits 0-5, 6-11, 12-17, 18-23 (before the alphabet mapping)")
			} else {
				ru.Bad(c, posOf(b.Instrs[0]), "the encoder's 3→4 regrouping is not uuencode's: no [4]byte holds the four consecutive 6-bit groups of the input when the alphabet mapping starts (arrays: %s)", strings.Join(seenArr, "; "))
			}
		case top == dec && 4 == size:
			off, _ := uuConst(p, "uuOffset")
			m.Override = func(i ssa.Instruction) (bv, bool) {
				bo, ok := i.(*ssa.BinOp)
				if !ok || token.SUB != bo.Op {
					return bvUnknown, false
				}
				l, ok := bo.X.(*ssa.UnOp)
				if !ok || token.MUL != l.Op {
					return bvUnknown, false
				}
				k, ok := chunkIndex(l)
				if !ok {
					return bvUnknown, false
				}
				if n, ok := constInt(bo.Y); !ok || n != off {
					return bvUnknown, false
				}
				return sextet(k), true
			}
			m.run(b, nil)
			found := false
			var seenArr []string
			for al, arr := range m.Arrays {
				if 3 != len(*arr) {
					continue
				}
				seenArr = append(seenArr, fmt.Sprintf("%s=%s", al.Comment, bv{Kind: 3, Arr: arr}))
				ok := true
				for k := 0; k < 3; k++ {
					if (*arr)[k].Kind != 2 || (*arr)[k].Bits != inputByte(k).Bits {
						ok = false
					}
				}
				if ok {
					found = true
				}
			}
			sort.Strings(seenArr)
			c := fnName(f) + ":4→3"
			if found {
				ru.OK(c, posOf(b.Instrs[0]), "for every group of four symbols the three bytes are rebuilt from bits 0-7, 8-15, 16-23 of the 24-bit group: the inverse of the encoder's regrouping")
			} else {
				ru.Bad(c, posOf(b.Instrs[0]), "the decoder's 4→3 regrouping does not invert the encoder's (arrays: %s)", strings.Join(seenArr, "; "))
			}
		}
	}
	ru.AtLeast(2, "regroupings")
}

func checkC15Tables(p *Prog, r *Report, ru *Rule, fns map[*ssa.Function]*ssa.Function) {
	enc := p.Func(uuPkg, "", "AppendEncode")
	dec := p.Func(uuPkg, "", "AppendDecode")
	off, _ := uuConst(p, "uuOffset")

	/* evalAt runs the fragment starting at block b with one loaded value
	bound to n, and reports the constant stores executed and where it
	stopped. */
	type outcome struct {
		stored []int64
		end    *ssa.BasicBlock
		why    string
	}
	evalAt := func(b *ssa.BasicBlock, load ssa.Value, n int64) outcome {
		m := newBitMachine()
		var o outcome
		sameElem := func(l *ssa.UnOp) bool {
			if ssa.Value(l) == load {
				return true
			}
			/* A reload of the same element (same base, same index value). */
			lo, ok := load.(*ssa.UnOp)
			if !ok {
				return false
			}
			a, ok1 := lo.X.(*ssa.IndexAddr)
			b, ok2 := l.X.(*ssa.IndexAddr)
			return ok1 && ok2 && a.X == b.X && a.Index == b.Index
		}
		m.Input = func(l *ssa.UnOp) bv {
			if sameElem(l) {
				return bvInt(n)
			}
			return bvUnknown
		}
		m.Override = func(i ssa.Instruction) (bv, bool) {
			if st, ok := i.(*ssa.Store); ok {
				if _, isIA := st.Addr.(*ssa.IndexAddr); isIA {
					if k, ok := m.eval(st.Val).allConst(); ok {
						o.stored = append(o.stored, k)
					} else {
						o.stored = append(o.stored, -1)
					}
					return bvUnknown, true
				}
			}
			if idx, ok := i.(*ssa.Index); ok && ssa.Value(idx) == load {
				return bvInt(n), true
			}
			return bvUnknown, false
		}
		o.end = m.run(b, nil)
		o.why = m.Why
		return o
	}

	/* Encoder table: the test "elem == 0" on a loaded array element. */
	encTable := map[int64]int64{}
	haveEnc := false
	for f, top := range fns {
		if top != enc {
			continue
		}
		for _, b := range f.Blocks {
			ifi := blockIf(b)
			if nil == ifi {
				continue
			}
			dc := decodeCond(ifi.Cond)
			if nil == dc.Y {
				continue
			}
			if k, ok := constInt(dc.Y); !ok || 0 != k {
				continue
			}
			l, ok := dc.X.(*ssa.UnOp)
			if !ok || token.MUL != l.Op {
				continue
			}
			if bt, ok := l.Type().Underlying().(*types.Basic); !ok || types.Uint8 != bt.Kind() {
				continue
			}
			haveEnc = true
			for s := int64(0); s < 64; s++ {
				o := evalAt(b, l, s)
				if 1 == len(o.stored) {
					encTable[s] = o.stored[0]
				} else {
					encTable[s] = -1
				}
			}
			r.Saw("func " + fnName(f))
		}
	}
	if encGroupProved {
		ru.OK(fnName(enc)+":alphabet", enc.Pos(), "every symbol is '`' for the zero group and 32 + the group otherwise (decided with the regrouping, see bit-layout): Perl's pack('u') alphabet")
		for s := int64(0); s < 64; s++ {
			encTable[s] = s + 32
		}
		encTable[0] = 96
	} else if !haveEnc {
		ru.Unproven(fnName(enc)+":alphabet", token.NoPos, "the encoder's zero-symbol test was not found")
	} else {
		var wrong []string
		for s := int64(0); s < 64; s++ {
			want := s + 32
			if 0 == s {
				want = 96
			}
			if encTable[s] != want {
				wrong = append(wrong, fmt.Sprintf("%d→%d (Perl: %d)", s, encTable[s], want))
			}
		}
		if 0 == len(wrong) {
			ru.OK(fnName(enc)+":alphabet", enc.Pos(), "all 64 sextets map to Perl's pack('u') alphabet ('`' for 0, else +32)")
		} else {
			ru.Bad(fnName(enc)+":alphabet", enc.Pos(), "the encoder's symbol table differs from Perl's pack('u') for %d of 64 sextets: %s", len(wrong), strings.Join(firstN(wrong, 6), ", "))
		}
	}

	/* Decoder: sanitiser and acceptance. */
	sanitize := map[int64]int64{}
	accept := map[int64]bool{}
	haveAcc := false
	for f, top := range fns {
		if top != dec {
			continue
		}
		/* The rejecting block: converts a byte to InvalidEncodedCharacterError. */
		var rej *ssa.BasicBlock
		var checked ssa.Value
		eachInstr(f, func(i ssa.Instruction) {
			if cv, ok := i.(*ssa.Convert); ok {
				if n := namedOf(cv.Type()); nil != n && "InvalidEncodedCharacterError" == n.Obj().Name() {
					rej, checked = cv.Block(), cv.X
				}
			}
		})
		if nil != rej {
			l, ok := checked.(*ssa.UnOp)
			if ok {
				haveAcc = true
				r.Saw("func " + fnName(f))
				for v := int64(0); v < 256; v++ {
					o := evalAt(l.Block(), l, v)
					accept[v] = !(o.end == rej)
				}
			}
		}
		/* Sanitiser: an equality test of a loaded byte with a constant whose
		true edge stores a constant. */
		for _, b := range f.Blocks {
			ifi := blockIf(b)
			if nil == ifi {
				continue
			}
			dc := decodeCond(ifi.Cond)
			if nil == dc.Y {
				continue
			}
			l, ok := dc.X.(*ssa.UnOp)
			if !ok || token.MUL != l.Op || l.Block() != b {
				continue
			}
			if _, isIA := l.X.(*ssa.IndexAddr); !isIA {
				continue
			}
			if ssa.Value(l) == checked {
				continue
			}
			for v := int64(0); v < 256; v++ {
				o := evalAt(b, l, v)
				if 1 == len(o.stored) && o.stored[0] >= 0 {
					sanitize[v] = o.stored[0]
				}
			}
		}
	}
	/* Sanitiser written as a library call: bytes.ReplaceAll(x, {a}, {b}) (or
	Replace with a negative count) of one byte by one byte. */
	for f, top := range fns {
		if top != dec {
			continue
		}
		eachInstr(f, func(i ssa.Instruction) {
			c, ok := i.(*ssa.Call)
			if !ok {
				return
			}
			switch calleeName(c.Common()) {
			case "bytes.ReplaceAll":
			case "bytes.Replace":
				if k, ok := constInt(c.Common().Args[3]); !ok || k >= 0 {
					return
				}
			default:
				return
			}
			a, okA := constByteSlice(c.Common().Args[1])
			b, okB := constByteSlice(c.Common().Args[2])
			if !okA || !okB || 1 != len(a) || 1 != len(b) {
				sanitize[-1] = -1 /* a substitution which is not byte for byte */
				return
			}
			sanitize[int64(a[0])] = int64(b[0])
		})
	}
	if !haveAcc {
		ru.Unproven(fnName(dec)+":accepts", token.NoPos, "the decoder's alphabet check was not found")
		return
	}
	var accepted []int64
	for v := int64(0); v < 256; v++ {
		if accept[v] {
			accepted = append(accepted, v)
		}
	}
	lo, hi := int64(-1), int64(-1)
	contiguous := true
	for i, v := range accepted {
		if 0 == i {
			lo = v
		} else if v != accepted[i-1]+1 {
			contiguous = false
		}
		hi = v
	}
	if contiguous && off == lo && off+63 == hi {
		ru.OK(fnName(dec)+":accepts", dec.Pos(), "after sanitising, exactly the 64 symbols %d..%d are accepted", lo, hi)
	} else {
		ru.Bad(fnName(dec)+":accepts", dec.Pos(), "the decoder accepts symbols %d..%d (contiguous=%v, %d values); uuencode's alphabet is %d..%d", lo, hi, contiguous, len(accepted), off, off+63)
	}
	if 1 == len(sanitize) && sanitize[96] == off {
		ru.OK(fnName(dec)+":sanitises", dec.Pos(), "'`' is read as the zero symbol (space)")
	} else {
		ru.Bad(fnName(dec)+":sanitises", dec.Pos(), "the decoder's substitution table is %v; only '`'(96)→%d expected", sanitize, off)
	}
	if haveEnc {
		var bad []string
		for s := int64(0); s < 64; s++ {
			c := encTable[s]
			if v, ok := sanitize[c]; ok {
				c = v
			}
			if !accept[c] || c-off != s {
				bad = append(bad, fmt.Sprintf("sextet %d → symbol %d → %s", s, encTable[s], map[bool]string{true: fmt.Sprintf("decoded %d", c-off), false: "rejected"}[accept[c]]))
			}
		}
		if 0 == len(bad) {
			ru.OK("lib/uu:symbol-round-trip", token.NoPos, "decode(symbol(s)) = s for all 64 sextets")
		} else {
			ru.Bad("lib/uu:symbol-round-trip", token.NoPos, "the decoder does not invert the encoder's alphabet for %d of 64 sextets: %s", len(bad), strings.Join(firstN(bad, 6), "; "))
		}
	}
}

func firstN(ss []string, n int) []string {
	if len(ss) > n {
		return append(append([]string(nil), ss[:n]...), "...")
	}
	return ss
}

// isShrinkingLoop: the loop headed by h runs while a slice is non-empty and
// every iteration replaces that slice by what bytes.Cut leaves after a
// non-empty separator, which is strictly shorter: it terminates.
func isShrinkingLoop(p *Prog, h *ssa.BasicBlock) bool {
	ifi := blockIf(h)
	if nil == ifi {
		return false
	}
	if isCutWhileFound(p, h, ifi) {
		return true
	}
	/* The condition: len(R) != 0 / 0 != len(R) / len(R) > 0 / 0 < len(R). */
	bo, ok := ifi.Cond.(*ssa.BinOp)
	if !ok {
		return false
	}
	x, y := bo.X, bo.Y
	op := bo.Op
	if k, isC := constInt(x); isC && 0 == k {
		x, y = y, x
		switch op {
		case token.LSS:
			op = token.GTR
		case token.GTR:
			op = token.LSS
		}
	}
	if k, isC := constInt(y); !isC || 0 != k || (token.NEQ != op && token.GTR != op) {
		return false
	}
	lc, ok := x.(*ssa.Call)
	if !ok {
		return false
	}
	if bi, isB := lc.Common().Value.(*ssa.Builtin); !isB || "len" != bi.Name() {
		return false
	}
	ph, ok := lc.Common().Args[0].(*ssa.Phi)
	if !ok || ph.Block() != h {
		return false
	}
	/* Back-edge values of R. */
	nback := 0
	for k, e := range ph.Edges {
		pred := h.Preds[k]
		if !h.Dominates(pred) {
			continue /* entry edge */
		}
		nback++
		ex, ok := e.(*ssa.Extract)
		if !ok || 1 != ex.Index {
			return false
		}
		c, ok := ex.Tuple.(*ssa.Call)
		if !ok || "bytes.Cut" != calleeName(c.Common()) && "strings.Cut" != calleeName(c.Common()) {
			return false
		}
		if c.Common().Args[0] != ssa.Value(ph) || !nonEmptySeparator(p, c.Common().Args[1]) {
			return false
		}
		/* The body is entered over the "non-empty" edge. */
		if !h.Succs[0].Dominates(c.Block()) && h.Succs[0] != c.Block() {
			return false
		}
	}
	return nback > 0
}

// isResliceLoop: the loop headed by h runs while a slice is non-empty and every
// way round replaces the slice by itself less a front piece which is proved
// to be at least one element long (rest = rest[n:], n ≥ 1): it terminates.
func isResliceLoop(ip *idxProver, h *ssa.BasicBlock) bool {
	ifi := blockIf(h)
	if nil == ifi {
		return false
	}
	bo, ok := ifi.Cond.(*ssa.BinOp)
	if !ok {
		return false
	}
	x, y, op := bo.X, bo.Y, bo.Op
	if k, isC := constInt(x); isC && 0 == k {
		x, y = y, x
		switch op {
		case token.LSS:
			op = token.GTR
		case token.GTR:
			op = token.LSS
		}
	}
	if k, isC := constInt(y); !isC || 0 != k || (token.NEQ != op && token.GTR != op) {
		return false
	}
	lc, ok := x.(*ssa.Call)
	if !ok {
		return false
	}
	if bi, isB := lc.Common().Value.(*ssa.Builtin); !isB || "len" != bi.Name() {
		return false
	}
	ph, ok := lc.Common().Args[0].(*ssa.Phi)
	if !ok || ph.Block() != h {
		return false
	}
	nback := 0
	for k, e := range ph.Edges {
		if !h.Dominates(h.Preds[k]) {
			continue
		}
		nback++
		sl, ok := e.(*ssa.Slice)
		if !ok || sl.X != ssa.Value(ph) || nil == sl.Low || nil != sl.High {
			return false
		}
		if !h.Succs[0].Dominates(sl.Block()) && h.Succs[0] != sl.Block() {
			return false
		}
		f := ip.factsAt(sl)
		if !ip.prove(func(f *ifacts) lterm { return ip.norm(sl.Low, f).add(tConst(1), -1) }, f, 0) {
			return false
		}
	}
	return nback > 0
}

// isCutWhileFound: the loop headed by h goes round while the last bytes.Cut
// found its (non-empty) separator, and every Cut is of what the one before
// left: a Cut which finds the separator leaves strictly less, one which does
// not ends the loop.
func isCutWhileFound(p *Prog, h *ssa.BasicBlock, ifi *ssa.If) bool {
	more, ok := ifi.Cond.(*ssa.Phi)
	if !ok || more.Block() != h {
		return false
	}
	/* The body is entered over the "found" edge. */
	nback := 0
	for k, e := range more.Edges {
		if !h.Dominates(h.Preds[k]) {
			continue /* way in */
		}
		nback++
		ex, ok := e.(*ssa.Extract)
		if !ok || 2 != ex.Index {
			return false
		}
		c, ok := ex.Tuple.(*ssa.Call)
		if !ok || ("bytes.Cut" != calleeName(c.Common()) && "strings.Cut" != calleeName(c.Common())) || !nonEmptySeparator(p, c.Common().Args[1]) {
			return false
		}
		if !h.Succs[0].Dominates(c.Block()) && h.Succs[0] != c.Block() {
			return false
		}
		/* What is cut is what the last Cut left. */
		rest, ok := c.Common().Args[0].(*ssa.Phi)
		if !ok || rest.Block() != h {
			return false
		}
		for j, re := range rest.Edges {
			if !h.Dominates(h.Preds[j]) {
				continue
			}
			rx, ok := re.(*ssa.Extract)
			if !ok || 1 != rx.Index || rx.Tuple != ssa.Value(c) {
				return false
			}
		}
	}
	return nback > 0
}

// nonEmptySeparator: a non-empty constant string, a local []byte literal, or
// a package variable of the module initialised once with such a literal.
func nonEmptySeparator(p *Prog, v ssa.Value) bool {
	v = stripConv(v, true)
	if s, ok := constString(v); ok {
		return "" != s
	}
	if sl, ok := v.(*ssa.Slice); ok {
		if al, ok := sl.X.(*ssa.Alloc); ok {
			if n, ok := literalLen(al); ok {
				return n > 0
			}
		}
	}
	u, ok := v.(*ssa.UnOp)
	if !ok || token.MUL != u.Op {
		return false
	}
	g, ok := u.X.(*ssa.Global)
	if !ok || nil == g.Pkg || !strings.HasPrefix(g.Pkg.Pkg.Path(), ModPath) {
		return false
	}
	n, good := 0, false
	scan := func(fn *ssa.Function) {
		eachInstr(fn, func(i ssa.Instruction) {
			st, ok := i.(*ssa.Store)
			if !ok {
				return
			}
			if st.Addr == ssa.Value(g) {
				n++
				if sl, ok := st.Val.(*ssa.Slice); ok {
					if al, ok := sl.X.(*ssa.Alloc); ok {
						if k, ok := literalLen(al); ok && k > 0 {
							good = true
						}
					}
				}
			}
			/* Element writes through the variable. */
			if ia, ok := st.Addr.(*ssa.IndexAddr); ok {
				if l2, ok := ia.X.(*ssa.UnOp); ok && token.MUL == l2.Op && l2.X == ssa.Value(g) {
					n += 2
				}
			}
		})
	}
	if ini := g.Pkg.Func("init"); nil != ini {
		scan(ini)
	}
	for _, fn := range p.Funcs() {
		scan(fn)
	}
	return 1 == n && good
}

// isCountingLoop: the loop headed by h is left when a quantity which every
// trip round strictly increases reaches a bound which the loop does not
// change: "for i := a; i < n; i += k" with constant k > 0, or "for len(x) < n
// { x = append(x, …) }".  It terminates.
func isCountingLoop(h *ssa.BasicBlock) bool {
	if isBottomTestedCountingLoop(h) {
		return true
	}
	ifi := blockIf(h)
	if nil == ifi || 2 != len(h.Succs) {
		return false
	}
	bo, ok := ifi.Cond.(*ssa.BinOp)
	if !ok {
		return false
	}
	x, y, op := bo.X, bo.Y, bo.Op
	/* Counter on the left. */
	switch op {
	case token.GTR:
		x, y, op = y, x, token.LSS
	case token.GEQ:
		x, y, op = y, x, token.LEQ
	}
	if token.LSS != op && token.LEQ != op {
		return false
	}
	/* Continue over the true edge, leave over the false one. */
	inLoop := func(b *ssa.BasicBlock) bool {
		if !h.Dominates(b) {
			return false
		}
		return b == h || nil != (reachQ{From: Loc{b, -1, nil}, Target: func(j ssa.Instruction) bool { return j.Block() == h }}).run()
	}
	if !inLoop(h.Succs[0]) || inLoop(h.Succs[1]) {
		return false
	}
	/* The bound does not change in the loop. */
	outside := func(v ssa.Value) bool {
		switch b := v.(type) {
		case *ssa.Const, *ssa.Parameter, *ssa.FreeVar:
			return true
		case ssa.Instruction:
			return !inLoop(b.Block())
		}
		return false
	}
	if c, isCall := y.(*ssa.Call); isCall {
		/* The length of a slice value made before the loop (slice values
		are immutable: the loop cannot change it). */
		bi, isB := c.Common().Value.(*ssa.Builtin)
		if !isB || "len" != bi.Name() || !outside(c.Common().Args[0]) {
			return false
		}
	} else if !outside(y) {
		return false
	}
	back := func(ph *ssa.Phi, good func(e ssa.Value) bool) bool {
		n := 0
		for k, e := range ph.Edges {
			if !h.Dominates(h.Preds[k]) {
				continue /* way in */
			}
			n++
			if !good(e) {
				return false
			}
		}
		return n > 0
	}
	/* i < n with i stepped by a positive constant on every way round. */
	if ph, isPhi := x.(*ssa.Phi); isPhi && ph.Block() == h {
		return back(ph, func(e ssa.Value) bool {
			add, ok := e.(*ssa.BinOp)
			if !ok || token.ADD != add.Op || add.X != ssa.Value(ph) {
				return false
			}
			k, isC := constInt(add.Y)
			return isC && k > 0
		})
	}
	/* len(x) < n with x extended on every way round. */
	if lc, isCall := x.(*ssa.Call); isCall && lc.Block() == h {
		bi, isB := lc.Common().Value.(*ssa.Builtin)
		if !isB || "len" != bi.Name() {
			return false
		}
		ph, isPhi := lc.Common().Args[0].(*ssa.Phi)
		if !isPhi || ph.Block() != h {
			return false
		}
		return back(ph, func(e ssa.Value) bool {
			app, ok := e.(*ssa.Call)
			if !ok {
				return false
			}
			ab, isB := app.Common().Value.(*ssa.Builtin)
			if !isB || "append" != ab.Name() || app.Common().Args[0] != ssa.Value(ph) {
				return false
			}
			/* At least one element is added. */
			return len(variadicElems(app.Common())) >= 1
		})
	}
	return false
}

// isBottomTestedCountingLoop: the same loop with the test at the bottom (what
// the compiler makes of "for i := range 4"): one counter of the head is
// stepped by a positive constant on every way round, and every way round is
// the true edge of "stepped < bound" with a bound the loop does not compute.
func isBottomTestedCountingLoop(h *ssa.BasicBlock) bool {
	for _, i := range h.Instrs {
		ph, ok := i.(*ssa.Phi)
		if !ok {
			break
		}
		n, good := 0, true
		for k, e := range ph.Edges {
			pred := h.Preds[k]
			if !h.Dominates(pred) {
				continue /* way in */
			}
			n++
			add, ok := e.(*ssa.BinOp)
			if !ok || token.ADD != add.Op || add.X != ssa.Value(ph) {
				good = false
				break
			}
			if st, isC := constInt(add.Y); !isC || st <= 0 {
				good = false
				break
			}
			ifi := blockIf(pred)
			if nil == ifi || 2 != len(pred.Succs) || pred.Succs[0] != h || pred.Succs[1] == h {
				good = false
				break
			}
			bo, ok := ifi.Cond.(*ssa.BinOp)
			if !ok {
				good = false
				break
			}
			x, y, op := bo.X, bo.Y, bo.Op
			switch op {
			case token.GTR:
				x, y, op = y, x, token.LSS
			case token.GEQ:
				x, y, op = y, x, token.LEQ
			}
			if (token.LSS != op && token.LEQ != op) || x != ssa.Value(add) {
				good = false
				break
			}
			/* The bound. */
			if lc, isCall := y.(*ssa.Call); isCall {
				if bi, isB := lc.Common().Value.(*ssa.Builtin); isB && "len" == bi.Name() {
					y = lc.Common().Args[0]
				}
			}
			switch b := y.(type) {
			case *ssa.Const, *ssa.Parameter, *ssa.FreeVar:
			case ssa.Instruction:
				if h.Dominates(b.Block()) {
					good = false
				}
			default:
				good = false
			}
			if !good {
				break
			}
		}
		if good && n > 0 {
			return true
		}
	}
	return false
}

// checkC15ErrorLine: what is stored into DecodeError.Line.  The range index of
// the line loop counts by construction; a counter kept by hand must be
// stepped on every way back to the head of its loop (a "continue" which
// skips the step makes every later error point at the wrong line).
func checkC15ErrorLine(p *Prog, r *Report, ru *Rule, fnsMap map[*ssa.Function]*ssa.Function) {
	var fns []*ssa.Function
	for f, top := range fnsMap {
		if f == top {
			fns = append(fns, f)
		}
	}
	sort.Slice(fns, func(i, j int) bool { return fns[i].String() < fns[j].String() })
	lineF := p.Field(uuPkg, "DecodeError", "Line")
	if nil == lineF {
		return
	}
	n := 0
	for _, top := range fns {
		for _, f := range withAnons(top) {
			eachInstr(f, func(i ssa.Instruction) {
				st, ok := i.(*ssa.Store)
				if !ok {
					return
				}
				if fv, _ := fieldAddrOf(st.Addr); fv != lineF {
					return
				}
				n++
				c := fmt.Sprintf("%s:DecodeError.Line#%d", fnName(f), n)
				v := stripConv(resolveCell(resolveFree(stripConv(st.Val, true))), true)
				ph, isPhi := v.(*ssa.Phi)
				if !isPhi {
					ru.OK(c, posOf(st), "not a counter kept by hand")
					return
				}
				h := ph.Block()
				bad := false
				steps := 0
				for k, e := range ph.Edges {
					if !h.Dominates(h.Preds[k]) {
						continue /* way in */
					}
					if e == ssa.Value(ph) {
						bad = true
						continue
					}
					if b, isB := e.(*ssa.BinOp); isB && token.ADD == b.Op && b.X == ssa.Value(ph) {
						steps++
					}
				}
				switch {
				case 0 == steps:
					ru.OK(c, posOf(st), "not a counter of a loop")
				case bad:
					ru.Bad(c, posOf(st), "the line counter is not stepped on every way round the line loop (a line can be passed without being counted): errors after such a line name the wrong line")
				default:
					ru.OK(c, posOf(st), "the line counter is stepped on every way round the loop")
				}
			})
		}
	}
}
