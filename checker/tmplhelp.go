package main

// tmplhelp.go: text/template and shell-context helpers (primitive P8).

import (
	"golang.org/x/tools/go/packages"
	"fmt"
	"go/ast"
	"go/types"
	"os"
	"path/filepath"
	"strings"
	"text/template/parse"
)

// tTok is one token of a flattened template: literal text or a field action.
type tTok struct {
	Lit   string
	Field string /* ".ID" → "ID"; "." → "."; other actions → "?<text>" */
	Func  string /* {{ f .X }} / {{ .X | f }}: the one function applied to the field */
	Range bool   /* Inside a {{range}} body. */
}

// flattenTemplate parses text and inlines {{template}} calls of locally
// defined templates, returning the token sequence of the top-level template.
func flattenTemplate(name, text string, funcNames ...string) ([]tTok, error) {
	fm := map[string]any{}
	for _, n := range funcNames {
		fm[n] = func() {}
	}
	trees, err := parse.Parse(name, text, "{{", "}}", fm)
	if nil != err {
		return nil, err
	}
	top := trees[name]
	if nil == top {
		return nil, fmt.Errorf("template %q not found", name)
	}
	var out []tTok
	var walk func(n parse.Node, inRange bool, depth int) error
	walk = func(n parse.Node, inRange bool, depth int) error {
		if depth > 8 {
			return fmt.Errorf("template nesting too deep")
		}
		switch x := n.(type) {
		case *parse.ListNode:
			if nil == x {
				return nil
			}
			for _, c := range x.Nodes {
				if err := walk(c, inRange, depth); nil != err {
					return err
				}
			}
		case *parse.TextNode:
			out = append(out, tTok{Lit: string(x.Text), Range: inRange})
		case *parse.CommentNode:
		case *parse.ActionNode:
			f := "?" + x.String()
			fn := ""
			fieldOf := func(n parse.Node) (string, bool) {
				switch a := n.(type) {
				case *parse.FieldNode:
					return strings.Join(a.Ident, "."), true
				case *parse.DotNode:
					return ".", true
				}
				return "", false
			}
			if 0 == len(x.Pipe.Decl) {
				cmds := x.Pipe.Cmds
				switch {
				case 1 == len(cmds) && 1 == len(cmds[0].Args):
					if s, ok := fieldOf(cmds[0].Args[0]); ok {
						f = s
					}
				case 1 == len(cmds) && 2 == len(cmds[0].Args):
					/* {{ f .X }} */
					if id, ok := cmds[0].Args[0].(*parse.IdentifierNode); ok {
						if s, ok := fieldOf(cmds[0].Args[1]); ok {
							f, fn = s, id.Ident
						}
					}
				case 2 == len(cmds) && 1 == len(cmds[0].Args) && 1 == len(cmds[1].Args):
					/* {{ .X | f }} */
					if id, ok := cmds[1].Args[0].(*parse.IdentifierNode); ok {
						if s, ok := fieldOf(cmds[0].Args[0]); ok {
							f, fn = s, id.Ident
						}
					}
				}
			}
			out = append(out, tTok{Field: f, Func: fn, Range: inRange})
		case *parse.TemplateNode:
			t := trees[x.Name]
			if nil == t {
				return fmt.Errorf("template %q calls undefined template %q", name, x.Name)
			}
			return walk(t.Root, inRange, depth+1)
		case *parse.RangeNode:
			if err := walk(x.List, true, depth); nil != err {
				return err
			}
			if nil != x.ElseList {
				return walk(x.ElseList, inRange, depth)
			}
		case *parse.IfNode:
			out = append(out, tTok{Field: "?if", Range: inRange})
			if err := walk(x.List, inRange, depth); nil != err {
				return err
			}
			if nil != x.ElseList {
				return walk(x.ElseList, inRange, depth)
			}
		default:
			out = append(out, tTok{Field: "?" + n.String(), Range: inRange})
		}
		return nil
	}
	if err := walk(top.Root, false, 0); nil != err {
		return nil, err
	}
	return out, nil
}

// renderToks renders tokens with fields shown as ⟦name⟧.
func renderToks(toks []tTok) string {
	var sb strings.Builder
	for _, t := range toks {
		if "" != t.Field {
			sb.WriteString("⟦" + t.Field + "⟧")
		} else {
			sb.WriteString(t.Lit)
		}
	}
	return sb.String()
}

// shellCtx is the quoting context at a point of a POSIX shell text.
type shellCtx int

const (
	ctxBare shellCtx = iota
	ctxSingle
	ctxDouble
	ctxComment
)

func (c shellCtx) String() string {
	return [...]string{"unquoted", "single-quoted", "double-quoted", "comment"}[c]
}

// shellContexts lexes the flattened template as shell text and returns the
// quoting context in force at each field token (by token index).
func shellContexts(toks []tTok) map[int]shellCtx {
	out := map[int]shellCtx{}
	ctx := ctxBare
	esc := false
	for i, t := range toks {
		if "" != t.Field {
			out[i] = ctx
			esc = false
			continue
		}
		for _, ch := range t.Lit {
			switch ctx {
			case ctxBare:
				switch {
				case esc:
					esc = false
				case '\\' == ch:
					esc = true
				case '\'' == ch:
					ctx = ctxSingle
				case '"' == ch:
					ctx = ctxDouble
				case '#' == ch:
					ctx = ctxComment
				}
			case ctxSingle:
				if '\'' == ch {
					ctx = ctxBare
				}
			case ctxDouble:
				switch {
				case esc:
					esc = false
				case '\\' == ch:
					esc = true
				case '"' == ch:
					ctx = ctxBare
				}
			case ctxComment:
				if '\n' == ch {
					ctx = ctxBare
				}
			}
		}
	}
	return out
}

// embeddedFile returns the contents of the file embedded (//go:embed) into
// the package-level variable varName of the module package, read from the
// repository on every run.
func (p *Prog) embeddedFile(pkgSuffix, varName string) (string, string, error) {
	pk := p.Pkg(pkgSuffix)
	if nil == pk || nil == pk.Types.Scope().Lookup(varName) {
		/* Moved (with its file) to another package of the module? */
		if o := lookupObj(pk, varName); nil != o && nil != o.Pkg() {
			if q := p.ByPath[o.Pkg().Path()]; nil != q {
				pk = q
			}
		}
	}
	if nil == pk {
		return "", "", fmt.Errorf("package %s not found", pkgSuffix)
	}
	text, path, err := p.embeddedFileIn(pk, varName)
	if nil != err {
		/* Under another name, in whichever package: the module's only
		embedded file, if there is only one. */
		var hits [][2]string
		for _, q := range p.Pkgs {
			for _, n := range q.Types.Scope().Names() {
				if _, isVar := q.Types.Scope().Lookup(n).(*types.Var); !isVar {
					continue
				}
				if t, pa, e := p.embeddedFileIn(q, n); nil == e {
					hits = append(hits, [2]string{t, pa})
				}
			}
		}
		if 1 == len(hits) {
			return hits[0][0], hits[0][1], nil
		}
	}
	return text, path, err
}

// embeddedFileIn: the same, in a given package.
func (p *Prog) embeddedFileIn(pk *packages.Package, varName string) (string, string, error) {
	for _, f := range pk.Syntax {
		for _, d := range f.Decls {
			gd, ok := d.(*ast.GenDecl)
			if !ok {
				continue
			}
			for _, sp := range gd.Specs {
				vs, ok := sp.(*ast.ValueSpec)
				if !ok {
					continue
				}
				for _, n := range vs.Names {
					if n.Name != varName {
						continue
					}
					doc := gd.Doc
					if nil != vs.Doc {
						doc = vs.Doc
					}
					if nil == doc {
						return "", "", fmt.Errorf("%s has no //go:embed directive", varName)
					}
					for _, c := range doc.List {
						if strings.HasPrefix(c.Text, "//go:embed ") {
							name := strings.TrimSpace(strings.TrimPrefix(c.Text, "//go:embed "))
							dir := filepath.Dir(p.Fset.Position(f.Pos()).Filename)
							path := filepath.Join(dir, name)
							if ob, ok := p.Overlay[path]; ok {
								return string(ob), path, nil
							}
							b, err := os.ReadFile(path)
							if nil != err {
								return "", path, err
							}
							return string(b), path, nil
						}
					}
				}
			}
		}
	}
	return "", "", fmt.Errorf("variable %s not found", varName)
}

// shellCommands splits rendered template text into simple commands at
// newlines, pipes, semicolons and &&/||, ignoring quoting subtleties beyond
// single/double quotes.
func shellCommands(s string) []string {
	var out []string
	var cur strings.Builder
	ctx := ctxBare
	flush := func() {
		if t := strings.TrimSpace(cur.String()); "" != t {
			out = append(out, t)
		}
		cur.Reset()
	}
	rs := []rune(s)
	for i := 0; i < len(rs); i++ {
		ch := rs[i]
		switch ctx {
		case ctxBare:
			switch ch {
			case '\'':
				ctx = ctxSingle
			case '"':
				ctx = ctxDouble
			case '#':
				if 0 == i || ' ' == rs[i-1] || '\n' == rs[i-1] || '\t' == rs[i-1] {
					ctx = ctxComment
					continue
				}
			case '\n', '|', ';':
				flush()
				continue
			case '&':
				if i+1 < len(rs) && '&' == rs[i+1] {
					i++
					flush()
					continue
				}
			}
		case ctxSingle:
			if '\'' == ch {
				ctx = ctxBare
			}
		case ctxDouble:
			if '"' == ch {
				ctx = ctxBare
			}
		case ctxComment:
			if '\n' == ch {
				ctx = ctxBare
				flush()
			}
			continue
		}
		cur.WriteRune(ch)
	}
	flush()
	return out
}
