package main

// load.go: load the module under analysis from -repo on every run, type-check
// it and build SSA.  Nothing is cached between runs.

import (
	"fmt"
	"go/ast"
	"go/token"
	"go/types"
	"os"
	"path/filepath"
	"sort"
	"strings"

	"golang.org/x/tools/go/packages"
	"golang.org/x/tools/go/ssa"
	"golang.org/x/tools/go/ssa/ssautil"
)

// ModPath is the module path of the repository under analysis.
const ModPath = "github.com/magisterquis/curlrevshell"

// Prog is the loaded program.
type Prog struct {
	Repo         string
	Fset         *token.FileSet
	Pkgs         []*packages.Package          /* Module packages, sorted by path. */
	ByPath       map[string]*packages.Package /* Module packages by import path. */
	SSA          *ssa.Program
	SSAPkg       map[string]*ssa.Package  /* By import path. */
	AllPkgs      int                      /* Number of packages seen, deps included. */
	Overlay      map[string][]byte        /* In-memory file replacements (self-test mutants). */
	funcs        []*ssa.Function          /* Source functions of the module, anons included. */
	Flat         *ssa.FlattenStats        /* What helper inlining did. */
	Helpers      []string                 /* Helper functions folded into their callers. */
	Canon        int                      /* Operations rewritten to their canonical spelling. */
	merged       map[string]*ssa.Function /* reference name → the function its body was written into */
	renamed      map[string]*ssa.Function /* reference name → the function which took its place */
	Lowered      int
	stable       map[*ssa.Global]bool
	written      map[*ssa.Global]int
	Materialised int             /* loads of once-assigned package-level function tables replaced by the literal */
	Forwarded    int             /* reference functions found to be forwarders to a new function which took over their body */
	ifaceNames   map[string]bool /* method names of the module's own interface types */
	fieldMut     map[*types.Var]bool /* fields stored to by something other than a constructor */
	Promoted     int             /* Functions whose struct parameters were replaced by their fields. */
	Unrolled     int             /* Functions in which a loop over a literal table was unrolled. */
	Devirt       int             /* Interface calls resolved to the one implementing type. */
}

// LoadOpts tunes loading.
type LoadOpts struct {
	Repo      string
	Overlay   map[string][]byte
	Tests     bool
	Env       []string /* Extra environment, e.g. GOOS=darwin. */
	AllSyntax bool
	NoFlatten bool /* Leave helper functions as calls. */
}

func goEnv(extra []string) []string {
	env := []string{}
	for _, e := range os.Environ() {
		if strings.HasPrefix(e, "GOWORK=") || strings.HasPrefix(e, "GOFLAGS=") {
			continue
		}
		env = append(env, e)
	}
	env = append(env,
		"GOFLAGS=-mod=mod", "GOPROXY=off", "GOSUMDB=off",
		"GOTOOLCHAIN=local", "GOWORK=off",
	)
	return append(env, extra...)
}

// Load loads, type-checks and SSA-builds the module.
func Load(o LoadOpts) (*Prog, error) {
	mode := packages.NeedName | packages.NeedFiles | packages.NeedCompiledGoFiles |
		packages.NeedImports | packages.NeedTypes | packages.NeedSyntax |
		packages.NeedTypesInfo | packages.NeedTypesSizes | packages.NeedModule |
		packages.NeedEmbedFiles | packages.NeedEmbedPatterns
	if o.AllSyntax {
		mode |= packages.NeedDeps
	}
	fset := token.NewFileSet()
	cfg := &packages.Config{
		Mode:    mode,
		Dir:     o.Repo,
		Fset:    fset,
		Env:     goEnv(o.Env),
		Tests:   o.Tests,
		Overlay: o.Overlay,
	}
	pkgs, err := packages.Load(cfg, "./...")
	if nil != err {
		return nil, fmt.Errorf("loading packages: %w", err)
	}
	if 0 == len(pkgs) {
		return nil, fmt.Errorf("no packages loaded from %s", o.Repo)
	}
	var errs []string
	nAll := 0
	packages.Visit(pkgs, nil, func(p *packages.Package) {
		nAll++
		if !strings.HasPrefix(p.PkgPath, ModPath) {
			return
		}
		for _, e := range p.Errors {
			errs = append(errs, e.Error())
		}
	})
	if 0 != len(errs) {
		sort.Strings(errs)
		return nil, fmt.Errorf("type errors: %s", strings.Join(errs, "; "))
	}
	p := &Prog{
		Repo:    o.Repo,
		Fset:    fset,
		ByPath:  map[string]*packages.Package{},
		SSAPkg:  map[string]*ssa.Package{},
		AllPkgs: nAll,
		Overlay: o.Overlay,
	}
	var sprog *ssa.Program
	var spkgs []*ssa.Package
	if o.AllSyntax {
		sprog, spkgs = ssautil.AllPackages(pkgs, ssa.InstantiateGenerics)
	} else {
		sprog, spkgs = ssautil.Packages(pkgs, ssa.InstantiateGenerics)
	}
	sprog.Build()
	p.SSA = sprog
	for i, pk := range pkgs {
		if !strings.HasPrefix(pk.PkgPath, ModPath) {
			continue
		}
		if strings.HasSuffix(pk.ID, ".test") || strings.Contains(pk.ID, " [") {
			/* Test variants are only loaded to make sure they type-check. */
			if o.Tests {
				continue
			}
		}
		p.Pkgs = append(p.Pkgs, pk)
		p.ByPath[pk.PkgPath] = pk
		if i < len(spkgs) && nil != spkgs[i] {
			p.SSAPkg[pk.PkgPath] = spkgs[i]
		} else if sp := sprog.Package(pk.Types); nil != sp {
			p.SSAPkg[pk.PkgPath] = sp
		}
	}
	sort.Slice(p.Pkgs, func(i, j int) bool { return p.Pkgs[i].PkgPath < p.Pkgs[j].PkgPath })
	if 0 == len(p.Pkgs) {
		return nil, fmt.Errorf("no packages of module %s found in %s", ModPath, o.Repo)
	}
	/* Collect source functions. */
	for _, pk := range p.Pkgs {
		sp := p.SSAPkg[pk.PkgPath]
		if nil == sp {
			return nil, fmt.Errorf("no SSA for %s", pk.PkgPath)
		}
		var roots []*ssa.Function
		for _, m := range sp.Members {
			switch m := m.(type) {
			case *ssa.Function:
				roots = append(roots, m)
			case *ssa.Type:
				for _, t := range []types.Type{m.Type(), types.NewPointer(m.Type())} {
					ms := sprog.MethodSets.MethodSet(t)
					for i := 0; i < ms.Len(); i++ {
						if f := sprog.MethodValue(ms.At(i)); nil != f && nil != f.Syntax() {
							roots = append(roots, f)
						}
					}
				}
			}
		}
		seen := map[*ssa.Function]bool{}
		var add func(f *ssa.Function)
		add = func(f *ssa.Function) {
			if nil == f || seen[f] || nil == f.Blocks {
				return
			}
			if nil != f.Pkg && f.Pkg != sp {
				return
			}
			seen[f] = true
			p.funcs = append(p.funcs, f)
			for _, a := range f.AnonFuncs {
				add(a)
			}
		}
		for _, f := range roots {
			add(f)
		}
	}
	p.resolveRenames()
	if !o.NoFlatten {
		p.flatten()
	}
	p.resolveMerged()
	sort.Slice(p.funcs, func(i, j int) bool {
		a, b := p.funcs[i], p.funcs[j]
		if a.String() != b.String() {
			return a.String() < b.String()
		}
		return a.Pos() < b.Pos()
	})
	/* Dedup (methods of value types appear for T and *T). */
	out := p.funcs[:0]
	var prev *ssa.Function
	for _, f := range p.funcs {
		if f != prev {
			out = append(out, f)
		}
		prev = f
	}
	p.funcs = out
	return p, nil
}

// Funcs returns every source-level function of the module (closures
// included, synthetic wrappers excluded), in a deterministic order.
func (p *Prog) Funcs() []*ssa.Function {
	var out []*ssa.Function
	for _, f := range p.funcs {
		if "" != f.Synthetic && !strings.Contains(f.Synthetic, "range-over-func") {
			continue
		}
		out = append(out, f)
	}
	return out
}

// Pos renders a position relative to the repository root.
func (p *Prog) Pos(pos token.Pos) string {
	if !pos.IsValid() {
		return "-"
	}
	ps := p.Fset.Position(pos)
	rel, err := filepath.Rel(p.Repo, ps.Filename)
	if nil != err {
		rel = ps.Filename
	}
	return fmt.Sprintf("%s:%d", rel, ps.Line)
}

// Pkg returns the module package whose path is ModPath+"/"+suffix ("" for the
// root package).
func (p *Prog) Pkg(suffix string) *packages.Package {
	path := ModPath
	if "" != suffix {
		path += "/" + suffix
	}
	return p.ByPath[path]
}

// FileOf returns the syntax file containing pos.
func (p *Prog) FileOf(pos token.Pos) *ast.File {
	for _, pk := range p.Pkgs {
		for _, f := range pk.Syntax {
			if f.Pos() <= pos && pos <= f.End() {
				return f
			}
		}
	}
	return nil
}

// isHelper: a top-level module function which is not part of the reference
// structure the rules are written against (reffuncs.go): a helper somebody
// extracted.  Its calls are folded back into the callers before analysis.
func isHelper(f *ssa.Function) bool {
	if nil == f || nil != f.Parent() || nil == f.Blocks {
		return false
	}
	if o := f.Origin(); nil != o && o != f && nil != o.Pkg && strings.HasPrefix(f.Synthetic, "instance of") {
		/* An instance of a generic helper of the module. */
		if !strings.HasPrefix(o.Pkg.Pkg.Path(), ModPath) {
			return false
		}
		_, isRef := refInfo[o.String()]
		return !isRef
	}
	if nil == f.Pkg || "" != f.Synthetic {
		return false
	}
	if !strings.HasPrefix(f.Pkg.Pkg.Path(), ModPath) {
		return false
	}
	switch f.Name() {
	case "main", "init":
		return false
	}
	if isWriteAllFunc(f) {
		return false /* stands for one write, see writeall.go */
	}
	name := f.String()
	if ref, ok := renameImage[f]; ok {
		name = ref /* the reference function, under another name */
	}
	if foldedRefFuncs[name] {
		return true
	}
	_, isRef := refInfo[name]
	return !isRef
}

// foldedRefFuncs: functions of the reference tree which the rules prefer to
// see folded into their callers as well, so that the tree looks the same
// whether such a helper exists, is split in two or is written out in place.
var foldedRefFuncs = map[string]bool{
	"(*" + ModPath + "/lib/opshell.Shell).resetSilenceTimer":    true, /* C19 reasons about the time store and the timer reset at the places which need them */
	"(*" + ModPath + "/internal/hsrv.Server).printCallbackHelp": true, /* C04 looks for the print of the help text where it happens */
	"(*" + ModPath + "/internal/hsrv.Server).readTemplate":      true, /* C07 reasons about where the executed template comes from, on the paths of the handler itself */
}

// flatten folds helpers into their callers and hides the helpers which are no
// longer referenced.
// ifaceMethodNames: the names of the methods of the interface types the module
// declares (named types, and interfaces written out in signatures and fields
// are not looked for: a method value reached only that way is found by its
// static call or binding).
func (p *Prog) ifaceMethodNames() map[string]bool {
	if nil != p.ifaceNames {
		return p.ifaceNames
	}
	p.ifaceNames = map[string]bool{}
	for _, pk := range p.Pkgs {
		sc := pk.Types.Scope()
		for _, n := range sc.Names() {
			tn, ok := sc.Lookup(n).(*types.TypeName)
			if !ok {
				continue
			}
			it, ok := tn.Type().Underlying().(*types.Interface)
			if !ok {
				continue
			}
			for k := 0; k < it.NumMethods(); k++ {
				p.ifaceNames[it.Method(k).Name()] = true
			}
		}
	}
	return p.ifaceNames
}

// theProg is the program being judged (for helpers which have no other way
// to ask about package-level variables).
var theProg *Prog

func (p *Prog) flatten() {
	theProg = p
	ssa.NeverNilGlobal = p.sentinelError
	var tops []*ssa.Function
	for _, f := range p.funcs {
		if nil == f.Parent() {
			tops = append(tops, f)
		}
	}
	/* Calls through an interface declared in the module which exactly one
	type of the module implements are calls of that type's methods. */
	impl := map[string]*ssa.Function{}
	onlyImpl := map[string]types.Type{}
	resolve := func(recv types.Type, m *types.Func) *ssa.Function {
		named, ok := recv.(*types.Named)
		if !ok || nil == named.Obj().Pkg() || !strings.HasPrefix(named.Obj().Pkg().Path(), ModPath) {
			return nil
		}
		iface, ok := named.Underlying().(*types.Interface)
		if !ok {
			return nil
		}
		key := named.String() + "." + m.Name()
		if f, done := impl[key]; done {
			return f
		}
		var found []types.Type
		for _, pk := range p.Pkgs {
			sc := pk.Types.Scope()
			for _, n := range sc.Names() {
				tn, ok := sc.Lookup(n).(*types.TypeName)
				if !ok || tn.IsAlias() {
					continue
				}
				if _, isIface := tn.Type().Underlying().(*types.Interface); isIface {
					continue
				}
				for _, t := range []types.Type{tn.Type(), types.NewPointer(tn.Type())} {
					if types.Implements(t, iface) {
						found = append(found, t)
						break
					}
				}
			}
		}
		var f *ssa.Function
		if 1 == len(found) {
			f = p.SSA.LookupMethod(found[0], m.Pkg(), m.Name())
			if nil != f && "" != f.Synthetic {
				f = nil /* promoted through embedding: see below */
				onlyImpl[key] = found[0]
			}
		}
		impl[key] = f
		return f
	}
	for _, f := range tops {
		p.Devirt += ssa.Devirtualize(f, resolve)
	}
	/* The one implementation has the method from an embedded field (type
	adapter struct{ *exec.Cmd }): the call is the embedded value's. */
	resolvePromoted := func(recv types.Type, m *types.Func) (types.Type, []int, *ssa.Function, *types.Func) {
		named, ok := recv.(*types.Named)
		if !ok {
			return nil, nil, nil, nil
		}
		resolve(recv, m)
		T := onlyImpl[named.String()+"."+m.Name()]
		if nil == T {
			return nil, nil, nil, nil
		}
		sel := types.NewMethodSet(T).Lookup(m.Pkg(), m.Name())
		if nil == sel || len(sel.Index()) < 2 {
			return nil, nil, nil, nil
		}
		path := sel.Index()[:len(sel.Index())-1]
		mo, _ := sel.Obj().(*types.Func)
		if nil == mo {
			return nil, nil, nil, nil
		}
		if rv := mo.Type().(*types.Signature).Recv(); nil != rv {
			if _, isIface := rv.Type().Underlying().(*types.Interface); isIface {
				return T, path, nil, mo
			}
		}
		if tf := p.SSA.FuncValue(mo); nil != tf {
			return T, path, tf, nil
		}
		return nil, nil, nil, nil
	}
	for _, f := range tops {
		p.Devirt += ssa.DevirtualizePromoted(f, resolvePromoted)
	}
	/* A function kept in a field or package-level variable for the tests'
	sake (now: time.Now) and never given another value is that function. */
	p.Devirt += p.devirtualiseFuncVars(tops)
	/* One spelling per operation (len(s) == 0 is s == "", ...). */
	for _, f := range tops {
		p.Canon += ssa.Canonicalize(f)
		if ssa.FoldWriteString(f) {
			p.Canon++
		}
	}
	/* Calls which never return end their block, so that "if err != nil {
	log.Fatalf(...) }" does not fall through in the flow graph. */
	for _, f := range tops {
		ssa.CutNoReturn(f, func(c *ssa.Call) bool { return isNoReturn(c) })
	}
	/* A reference function kept as a forwarder to a new function which took
	over its body (New → NewFromConfig(Config{…})): the callers of the new
	function call the old one again, and the new one is then just a helper
	of the old. */
	p.collapseForwarders(tops)
	/* "defer func() { if nil != err { undo() } }()" over a named result is
	the undo on the error returns. */
	for _, f := range tops {
		if ssa.LowerResultDefers(f) {
			p.Lowered++
			if "" != os.Getenv("CRS_FLATDEBUG") {
				fmt.Fprintf(os.Stderr, "LOWERED result defer in %s\n", f)
			}
		}
	}
	p.Flat = ssa.FlattenAll(tops, isHelper)
	/* A concrete value put into an interface only to have a method called
	on it (a helper folded in which takes a one-method interface). */
	for round := 0; round < 3; round++ {
		did := 0
		for _, f := range tops {
			if !isHelper(f) && nil == f.Parent() {
				ssa.SpecializeInterfacePhis(f)
				did += ssa.DevirtualizeKnown(f, func(recv types.Type, m *types.Func) *ssa.Function {
					return p.SSA.LookupMethod(recv, m.Pkg(), m.Name())
				})
			}
		}
		if 0 == did {
			break
		}
		p.Devirt += did
		more := ssa.FlattenAll(tops, isHelper)
		p.Flat.Inlined += more.Inlined
		p.Flat.GoTurned += more.GoTurned
		p.Flat.Bound += more.Bound
	}
	/* (function-valued fields again: a helper which was handed the field's
	value as a parameter has been folded in by now) */
	if n := p.devirtualiseFuncVars(tops); n > 0 {
		p.Devirt += n
		more := ssa.FlattenAll(tops, isHelper)
		p.Flat.Inlined += more.Inlined
		p.Flat.GoTurned += more.GoTurned
		p.Flat.Bound += more.Bound
	}
	/* Variables kept in memory only because a function literal reads them
	(or did, before it was folded in) become values. */
	for _, f := range tops {
		if !isHelper(f) && nil == f.Parent() {
			ssa.Relift(f)
			ssa.FoldConstOps(f)
			ssa.CaptureByValue(f)
			ssa.LiftCells(f)
		}
	}
	/* A package-level table which is never written after initialisation is,
	where a loop ranges over it, the literal it was initialised with. */
	for _, f := range tops {
		if !isHelper(f) {
			p.materialiseTables(f)
		}
	}
	/* Loops over small literal tables are unrolled; calls through the
	table's function values become static, and are folded in turn. */
	for round := 0; round < 3; round++ {
		unrolled := false
		for _, f := range tops {
			if isHelper(f) {
				continue
			}
			did := ssa.UnrollTableLoops(f, 8)
			if did {
				ssa.SplitLocalStructs(f)
				ssa.ForwardStructFields(f)
			}
			if ssa.ForwardArrayElems(f) {
				did = true
			}
			if did {
				unrolled = true
				p.Unrolled++
				if "" != os.Getenv("CRS_FLATDEBUG") {
					fmt.Fprintf(os.Stderr, "UNROLLED in %s\n", f)
				}
			}
		}
		if !unrolled {
			break
		}
		more := ssa.FlattenAll(tops, isHelper)
		p.Flat.Inlined += more.Inlined
		p.Flat.GoTurned += more.GoTurned
		p.Flat.Bound += more.Bound
	}
	/* Values carried in local struct variables are used where they end up. */
	for _, f := range tops {
		if !isHelper(f) {
			ssa.SplitLocalStructs(f)
			if ssa.SplitStructPhis(f) {
				/* (a struct returned on several paths of a helper folded in) */
				ssa.SplitLocalStructs(f)
			}
			ssa.ForwardStructFields(f)
		}
	}
	/* A private function which takes a struct only to take it apart gets
	the fields as parameters (whichever way its author bundled them). */
	p.promoteParams(tops)
	/* What all of the above has made decidable at analysis time. */
	for _, f := range tops {
		if !isHelper(f) && nil == f.Parent() {
			ssa.Relift(f)
			ssa.FoldConstOps(f)
			/* "a && b" computed as a value only to be branched on (the
			cases of a tagless switch) becomes the two branches. */
			ssa.ThreadBoolPhis(f)
			/* One question asked twice (errors.Is(err, ErrX) in a helper
			folded in and again in the caller) has one answer. */
			ssa.CommonSubexpressions(f, p.stableGlobal, pureCall)
		}
	}
	/* Which helpers are still referenced from non-helper code? */
	still := map[*ssa.Function]bool{}
	var visit func(f *ssa.Function)
	visit = func(f *ssa.Function) {
		for _, b := range f.Blocks {
			for _, i := range b.Instrs {
				var ops []*ssa.Value
				for _, o := range i.Operands(ops) {
					if g, ok := (*o).(*ssa.Function); ok && isHelper(g) {
						still[g] = true
					}
				}
			}
		}
		for _, a := range f.AnonFuncs {
			visit(a)
		}
	}
	/* A method is also reached through an interface: every method of a type
	some value of which is put into an interface stays (io.Writer(termWriter{s})
	— Write is called by whoever is handed the writer). */
	var visitIface func(f *ssa.Function)
	visitIface = func(f *ssa.Function) {
		for _, b := range f.Blocks {
			for _, i := range b.Instrs {
				mi, ok := i.(*ssa.MakeInterface)
				if !ok {
					continue
				}
				ms := p.SSA.MethodSets.MethodSet(mi.X.Type())
				for k := 0; k < ms.Len(); k++ {
					/* Through an interface only exported methods can be
					reached from outside the module (fmt's Stringer,
					io.Writer, …), and unexported ones only through an
					interface the module itself declares. */
					if name := ms.At(k).Obj().Name(); !ast.IsExported(name) && !p.ifaceMethodNames()[name] {
						continue
					}
					if g := p.SSA.MethodValue(ms.At(k)); nil != g && isHelper(g) {
						still[g] = true
					}
				}
			}
		}
		for _, a := range f.AnonFuncs {
			visitIface(a)
		}
	}
	for changed := true; changed; {
		changed = false
		n := len(still)
		for _, f := range tops {
			if !isHelper(f) || still[f] {
				visit(f)
				visitIface(f)
			}
		}
		changed = len(still) != n
	}
	if "" != os.Getenv("CRS_FLATDEBUG") {
		var ks []string
		for g := range still {
			ks = append(ks, g.String())
		}
		sort.Strings(ks)
		fmt.Fprintf(os.Stderr, "STILL %v\n", ks)
	}
	/* Rebuild the function list. */
	var out []*ssa.Function
	seen := map[*ssa.Function]bool{}
	var add func(f *ssa.Function)
	add = func(f *ssa.Function) {
		if nil == f || seen[f] || nil == f.Blocks {
			return
		}
		seen[f] = true
		out = append(out, f)
		for _, a := range f.AnonFuncs {
			add(a)
		}
	}
	for _, f := range tops {
		if isHelper(f) && !still[f] {
			p.Helpers = append(p.Helpers, f.String())
			continue
		}
		add(f)
	}
	sort.Strings(p.Helpers)
	p.funcs = out
}

// collapseForwarders: a reference function F whose whole body is "build a
// struct of my parameters (or pass them on) and return G(…)", G being a
// function of the same package which the reference tree does not have, is a
// forwarder kept for compatibility.  Every other call of G is turned into a
// call of F (each parameter of F read from the argument, or the field of the
// argument, into which F puts it), so that G is called by F alone and is
// folded into it like any helper.  Nothing is done unless every parameter of
// F reaches G in exactly one place, every field of a struct F builds comes
// from a parameter, and G is used in no other way than being called.
func (p *Prog) collapseForwarders(tops []*ssa.Function) {
	for _, f := range tops {
		name := f.String()
		if ref, ok := renameImage[f]; ok {
			name = ref
		}
		if _, isRef := refInfo[name]; !isRef || nil == f.Blocks || 1 != len(f.Blocks) {
			continue
		}
		var call *ssa.Call
		ok := true
		for _, i := range f.Blocks[0].Instrs {
			switch x := i.(type) {
			case *ssa.Call:
				if isBackgroundCtx(x) {
					continue /* context.Background() handed on */
				}
				if nil != call {
					ok = false
				}
				call = x
			case *ssa.Alloc, *ssa.FieldAddr, *ssa.Store, *ssa.UnOp, *ssa.DebugRef, *ssa.Extract, *ssa.Return, *ssa.MakeInterface, *ssa.ChangeType:
			default:
				ok = false
			}
		}
		if !ok || nil == call {
			continue
		}
		g := call.Common().StaticCallee()
		if nil == g || g == f || nil == g.Blocks || !inModule(g) || nil != g.Parent() || "" != g.Synthetic {
			continue /* (the newcomer may live in a package of its own) */
		}
		if _, gRef := refInfo[g.String()]; gRef {
			continue
		}
		if _, gImg := renameImage[g]; gImg {
			continue
		}
		if !types.Identical(f.Signature.Results(), g.Signature.Results()) || len(call.Common().Args) != len(g.Params) {
			continue
		}
		/* The return hands back exactly what the call returned. */
		ret, _ := f.Blocks[0].Instrs[len(f.Blocks[0].Instrs)-1].(*ssa.Return)
		if nil == ret {
			continue
		}
		good := true
		for k, rv := range ret.Results {
			if 1 == len(ret.Results) && rv == ssa.Value(call) {
				continue
			}
			ex, isEx := rv.(*ssa.Extract)
			if !isEx || ex.Tuple != ssa.Value(call) || ex.Index != k {
				good = false
			}
		}
		if !good {
			continue
		}
		/* Where each parameter of f goes. */
		bgArgs := map[int]bool{}
		constArgs := map[int]*ssa.Const{}
		zeroFields := map[int][]int{}
		from := make([]ssa.ArgFrom, len(f.Params))
		set := make([]int, len(f.Params))
		pidx := func(v ssa.Value) int {
			for k, pa := range f.Params {
				if ssa.Value(pa) == v {
					return k
				}
			}
			return -1
		}
		for j, a := range call.Common().Args {
			if k := pidx(a); k >= 0 {
				from[k] = ssa.ArgFrom{Arg: j, Field: -1}
				set[k]++
				continue
			}
			if ac, isCall := a.(*ssa.Call); isCall && isBackgroundCtx(ac) {
				bgArgs[j] = true
				continue
			}
			if _, isC := a.(*ssa.Const); isC {
				constArgs[j] = a.(*ssa.Const)
				continue
			}
			ld, isLd := a.(*ssa.UnOp)
			if !isLd || token.MUL != ld.Op {
				good = false
				break
			}
			al, isAl := ld.X.(*ssa.Alloc)
			if !isAl {
				good = false
				break
			}
			st, isSt := al.Type().Underlying().(*types.Pointer).Elem().Underlying().(*types.Struct)
			if !isSt {
				good = false
				break
			}
			covered := map[int]bool{}
			for _, r := range *al.Referrers() {
				switch y := r.(type) {
				case *ssa.FieldAddr:
					for _, r2 := range *y.Referrers() {
						s2, isStore := r2.(*ssa.Store)
						if !isStore || s2.Addr != ssa.Value(y) {
							good = false
							continue
						}
						sv := s2.Val
						if mi, isMI := sv.(*ssa.MakeInterface); isMI {
							sv = mi.X /* a parameter put into an interface-typed field */
						}
						if ct, isCT := sv.(*ssa.ChangeType); isCT {
							sv = ct.X
						}
						k := pidx(sv)
						if k < 0 || covered[y.Field] {
							good = false
							continue
						}
						covered[y.Field] = true
						from[k] = ssa.ArgFrom{Arg: j, Field: y.Field}
						set[k]++
					}
				case *ssa.UnOp:
					if y != ld {
						good = false
					}
				case *ssa.DebugRef:
				default:
					good = false
				}
			}
			/* Fields the forwarder leaves at their zero value: the other
			callers must leave them so as well (checked per site). */
			for fk := 0; fk < st.NumFields(); fk++ {
				if !covered[fk] {
					zeroFields[j] = append(zeroFields[j], fk)
				}
			}
		}
		for _, n := range set {
			if 1 != n {
				good = false
			}
		}
		if !good {
			continue
		}
		/* Every use of g is a static call. */
		var sites []ssa.CallInstruction
		var scan func(h *ssa.Function)
		scan = func(h *ssa.Function) {
			for _, b := range h.Blocks {
				for _, i := range b.Instrs {
					ci, isCall := i.(ssa.CallInstruction)
					var ops []*ssa.Value
					for _, o := range i.Operands(ops) {
						if nil == *o || *o != ssa.Value(g) {
							continue
						}
						if !isCall || ci.Common().Value != ssa.Value(g) {
							good = false
							continue
						}
						if _, isPlain := i.(*ssa.Call); !isPlain {
							good = false /* go g(…) / defer g(…) */
							continue
						}
						if i != ssa.Instruction(call) {
							sites = append(sites, ci)
						}
					}
				}
			}
			for _, a := range h.AnonFuncs {
				scan(a)
			}
		}
		for _, h := range tops {
			scan(h)
		}
		if !good {
			continue
		}
		/* What the forwarder fixes, the other callers must fix the same way. */
		for _, site := range sites {
			sa := site.Common().Args
			for j := range bgArgs {
				if ac, isCall := sa[j].(*ssa.Call); !isCall || !isBackgroundCtx(ac) {
					good = false
				}
			}
			for j, c := range constArgs {
				if st, isSt := c.Type().Underlying().(*types.Struct); isSt && 0 == st.NumFields() {
					continue /* a value of an empty struct type: there is only one */
				}
				if sc, isC := sa[j].(*ssa.Const); !isC || sc.String() != c.String() {
					good = false
				}
			}
			for j, zs := range zeroFields {
				ld, isLd := sa[j].(*ssa.UnOp)
				if !isLd {
					good = false
					continue
				}
				al, isAl := ld.X.(*ssa.Alloc)
				if !isAl {
					good = false
					continue
				}
				for _, r := range *al.Referrers() {
					if fa, isFA := r.(*ssa.FieldAddr); isFA {
						for _, zf := range zs {
							if fa.Field == zf {
								good = false
							}
						}
					}
				}
			}
		}
		if !good {
			continue
		}
		for _, site := range sites {
			if !ssa.RedirectCall(site, f, from) {
				good = false
			}
		}
		p.Forwarded++
		if "" != os.Getenv("CRS_FLATDEBUG") {
			fmt.Fprintf(os.Stderr, "FORWARDER %s forwards to %s: %d other call sites of the latter redirected (ok=%v)\n", f, g, len(sites), good)
		}
	}
}

// materialiseTables: in f and its literals, every load of a package-level
// slice variable of the module which is assigned once, in its package's
// initialiser, a literal of at most 8 elements made of constants and function
// values, written nowhere else and never through an element, whose only use
// here is being ranged over or indexed, becomes that literal built locally
// (ssa.MaterialiseTable), so that the loop over it is unrolled like any other
// loop over a small literal.
func (p *Prog) materialiseTables(f *ssa.Function) {
	var loads, arrLoads []*ssa.UnOp
	var scan func(g *ssa.Function)
	scan = func(g *ssa.Function) {
		for _, b := range g.Blocks {
			for _, i := range b.Instrs {
				u, ok := i.(*ssa.UnOp)
				if !ok || token.MUL != u.Op {
					continue
				}
				gl, ok := u.X.(*ssa.Global)
				if !ok || !p.ownGlobal(gl) {
					continue
				}
				if _, isSl := u.Type().Underlying().(*types.Slice); isSl {
					loads = append(loads, u)
				}
				if at, isArr := u.Type().Underlying().(*types.Array); isArr && at.Len() >= 1 && at.Len() <= 8 {
					arrLoads = append(arrLoads, u)
				}
			}
		}
		for _, a := range g.AnonFuncs {
			scan(a)
		}
	}
	scan(f)
	/* A package-level array (var t = [...]T{…}) is filled element by
	element in the initialiser. */
	for _, u := range arrLoads {
		gl := u.X.(*ssa.Global)
		cells, n := p.globalArrayCells(gl)
		if nil == cells {
			continue
		}
		hasFunc := false
		for _, row := range cells {
			for _, v := range row {
				if _, isF := v.(*ssa.Function); isF {
					hasFunc = true
				}
			}
		}
		if hasFunc && ssa.MaterialiseTable(u, n, cells) {
			p.Materialised++
			if "" != os.Getenv("CRS_FLATDEBUG") {
				fmt.Fprintf(os.Stderr, "MATERIALISED array table %s in %s\n", gl.Name(), f)
			}
		}
	}
	for _, u := range loads {
		once := p.globalOnce(u)
		if nil == once {
			continue
		}
		sl, ok := once.(*ssa.Slice)
		if !ok || nil != sl.Low || nil != sl.High {
			continue
		}
		arr, ok := sl.X.(*ssa.Alloc)
		if !ok {
			continue
		}
		t := tableFromArray(arr, nil)
		if nil == t || t.N < 1 || t.N > 8 {
			continue
		}
		/* Function-valued tables only: those are the ones whose loops hide
		calls (other tables are read by the rules as they are). */
		hasFunc := false
		for _, row := range t.Cells {
			for _, v := range row {
				if _, isF := v.(*ssa.Function); isF {
					hasFunc = true
				}
			}
		}
		if !hasFunc {
			continue
		}
		if ssa.MaterialiseTable(u, t.N, t.Cells) {
			p.Materialised++
			if "" != os.Getenv("CRS_FLATDEBUG") {
				fmt.Fprintf(os.Stderr, "MATERIALISED table %s in %s\n", u.X.Name(), f)
			}
		}
	}
}

// stableGlobal: a package-level variable which nothing in the module writes
// (outside its own package's initialiser, once) or takes the address of:
// every load of it gives the same value.
func (p *Prog) stableGlobal(g *ssa.Global) bool {
	if nil == p.stable {
		p.stable = map[*ssa.Global]bool{}
		written := map[*ssa.Global]int{}
		seenTop := map[*ssa.Function]bool{}
		var visit func(f *ssa.Function)
		visit = func(f *ssa.Function) {
			isInit := "init" == f.Name() || strings.HasPrefix(f.Name(), "init#")
			for _, b := range f.Blocks {
				for _, i := range b.Instrs {
					var ops []*ssa.Value
					for _, o := range i.Operands(ops) {
						gl, ok := (*o).(*ssa.Global)
						if !ok {
							continue
						}
						switch x := i.(type) {
						case *ssa.UnOp:
							if token.MUL == x.Op {
								continue
							}
							written[gl] += 2
						case *ssa.Store:
							if x.Addr == ssa.Value(gl) && isInit && f.Pkg == gl.Pkg {
								written[gl]++
							} else {
								written[gl] += 2
							}
						case *ssa.DebugRef:
						default:
							written[gl] += 2 /* address used: may be written through */
						}
					}
				}
			}
			for _, a := range f.AnonFuncs {
				visit(a)
			}
		}
		for _, pk := range p.SSA.AllPackages() {
			if !strings.HasPrefix(pk.Pkg.Path(), ModPath) {
				continue
			}
			ini := pk.Func("init")
			for _, m := range pk.Members {
				if f, ok := m.(*ssa.Function); ok && f != ini {
					visit(f)
					seenTop[f] = true
				}
			}
			if nil != ini {
				visit(ini)
				seenTop[ini] = true
			}
		}
		/* Methods are not members of their package. */
		for _, f := range p.funcs {
			if nil == f.Parent() && !seenTop[f] {
				visit(f)
				seenTop[f] = true
			}
		}
		p.written = written
	}
	if v, ok := p.stable[g]; ok {
		return v
	}
	v := p.written[g] <= 1
	p.stable[g] = v
	return v
}

// pureCall: a call whose results depend on the values of its arguments only.
func pureCall(c *ssa.Call) bool {
	switch calleeName(c.Common()) {
	case "errors.Is", "strings.HasPrefix", "strings.HasSuffix", "strings.Contains", "strings.TrimSpace", "strings.TrimPrefix", "strings.TrimSuffix",
		"strings.ToLower", "strings.ToUpper", "strings.EqualFold", "path/filepath.Base", "path/filepath.Ext", "path/filepath.Dir", "path/filepath.Clean", "path.Base":
		return true
	}
	return false
}

// promoteParams applies argument promotion (ssa.PromoteStructParams) to the
// private top-level functions of the module whose every use is a static call.
func (p *Prog) promoteParams(tops []*ssa.Function) {
	sites := map[*ssa.Function][]ssa.CallInstruction{}
	otherRefs := map[*ssa.Function]bool{}
	boundObjs := map[types.Object]bool{}
	var visit func(f *ssa.Function)
	visit = func(f *ssa.Function) {
		for _, b := range f.Blocks {
			for _, i := range b.Instrs {
				var callee *ssa.Function
				if ci, ok := i.(ssa.CallInstruction); ok && !ci.Common().IsInvoke() {
					if g, isF := ci.Common().Value.(*ssa.Function); isF {
						callee = g
						sites[g] = append(sites[g], ci)
					}
				}
				var ops []*ssa.Value
				first := true
				for _, o := range i.Operands(ops) {
					if nil == *o {
						continue
					}
					if g, isF := (*o).(*ssa.Function); isF {
						if g == callee && first {
							first = false
							continue /* the call's own callee operand */
						}
						otherRefs[g] = true
						if "" != g.Synthetic && nil != g.Object() {
							boundObjs[g.Object()] = true
						}
					}
				}
			}
		}
		for _, a := range f.AnonFuncs {
			visit(a)
		}
	}
	for _, f := range tops {
		visit(f)
	}
	/* Method names which some interface of the program's module asks for. */
	ifaceMethod := map[string]bool{}
	for _, pk := range p.Pkgs {
		sc := pk.Types.Scope()
		for _, n := range sc.Names() {
			if tn, ok := sc.Lookup(n).(*types.TypeName); ok {
				if it, ok := tn.Type().Underlying().(*types.Interface); ok {
					for k := 0; k < it.NumMethods(); k++ {
						ifaceMethod[it.Method(k).Name()] = true
					}
				}
			}
		}
	}
	for _, f := range tops {
		if isHelper(f) || nil != f.Parent() || nil == f.Blocks || ast.IsExported(f.Name()) || otherRefs[f] || 0 == len(sites[f]) {
			continue
		}
		if nil != f.Object() && boundObjs[f.Object()] {
			continue
		}
		if nil != f.Signature.Recv() && ifaceMethod[f.Name()] {
			continue
		}
		switch f.Name() {
		case "main", "init":
			continue
		}
		ptr := ssa.PromotePointerParams(f, sites[f])
		/* A reference function which became the method of a bundle of its
		own parameters. */
		if _, isImg := renameImage[f]; isImg && nil != f.Signature.Recv() {
			if ssa.PromotePointerReceiver(f, sites[f]) {
				ptr = true
			}
		}
		if ptr {
			/* The fields are the function's own variables now. */
			ssa.Relift(f)
			ssa.LiftCells(f)
			if "" != os.Getenv("CRS_FLATDEBUG") {
				fmt.Fprintf(os.Stderr, "PROMOTED pointer-to-struct parameters of %s\n", f)
			}
		}
		if ssa.PromoteStructParams(f, sites[f]) || ptr {
			p.Promoted++
			seen := map[*ssa.Function]bool{}
			for _, ci := range sites[f] {
				top := ci.Parent()
				for nil != top.Parent() {
					top = top.Parent()
				}
				if !seen[top] {
					seen[top] = true
					ssa.SplitLocalStructs(top)
					ssa.ForwardStructFields(top)
				}
			}
			if ptr {
				ssa.UnifyEqualParams(f, sites[f])
			}
			if "" != os.Getenv("CRS_FLATDEBUG") {
				fmt.Fprintf(os.Stderr, "PROMOTED struct parameters of %s\n", f)
			}
		}
	}
}


// isBackgroundCtx: a call of context.Background() or context.TODO().
func isBackgroundCtx(c *ssa.Call) bool {
	if sc := c.Common().StaticCallee(); nil != sc && nil != sc.Pkg && "context" == sc.Pkg.Pkg.Path() {
		return "Background" == sc.Name() || "TODO" == sc.Name()
	}
	return false
}

// globalArrayCells: the elements of the package-level array variable g of the
// module, when each is stored exactly once, at a constant index, whole, in
// g's package initialiser, and g is otherwise only read (loaded whole, or an
// element loaded) anywhere in the module.  (cells[i][-1] is element i.)
func (p *Prog) globalArrayCells(g *ssa.Global) (map[int64]map[int]ssa.Value, int64) {
	at, ok := g.Type().Underlying().(*types.Pointer).Elem().Underlying().(*types.Array)
	if !ok || !p.ownGlobal(g) {
		return nil, 0
	}
	cells := map[int64]map[int]ssa.Value{}
	good := true
	ini := g.Pkg.Func("init")
	p.eachModuleInstr(g, func(i ssa.Instruction) {
		var ops []*ssa.Value
		for _, o := range i.Operands(ops) {
			if nil == *o || *o != ssa.Value(g) {
				continue
			}
			switch x := i.(type) {
			case *ssa.UnOp:
				if token.MUL != x.Op {
					good = false
				}
			case *ssa.IndexAddr:
				k, isC := constInt(x.Index)
				for _, r := range *x.Referrers() {
					switch y := r.(type) {
					case *ssa.UnOp:
						if token.MUL != y.Op {
							good = false
						}
					case *ssa.Store:
						if y.Addr != ssa.Value(x) || !isC || i.Parent() != ini {
							good = false
							continue
						}
						if _, dup := cells[k]; dup {
							good = false
						}
						v := y.Val
						if ct, isCT := v.(*ssa.ChangeType); isCT {
							v = ct.X /* a function given its named type */
						}
						cells[k] = map[int]ssa.Value{-1: v}
					case *ssa.DebugRef:
					default:
						good = false
					}
				}
			case *ssa.DebugRef:
			default:
				good = false
			}
		}
	})
	if !good || int64(len(cells)) != at.Len() {
		return nil, 0
	}
	return cells, at.Len()
}

// devirtualiseFuncVars: a call through a func-typed struct field, or through
// a package-level func variable, of the module which is only ever given one
// and the same plain function (no closure) — "now: time.Now", "var now =
// time.Now", there so that tests can swap it — is a call of that function.
// The field's or variable's address must be used for nothing but stores and
// loads anywhere in the module (tests are not loaded).
func (p *Prog) devirtualiseFuncVars(tops []*ssa.Function) int {
	type slot struct {
		fn   *ssa.Function
		bad  bool
		nset int
	}
	fields := map[*types.Var]*slot{}
	globals := map[*ssa.Global]*slot{}
	get := func(fv *types.Var, g *ssa.Global) *slot {
		if nil != fv {
			if _, ok := fields[fv]; !ok {
				fields[fv] = &slot{}
			}
			return fields[fv]
		}
		if _, ok := globals[g]; !ok {
			globals[g] = &slot{}
		}
		return globals[g]
	}
	isFuncT := func(t types.Type) bool {
		_, ok := t.Underlying().(*types.Signature)
		return ok
	}
	note := func(sl *slot, refs []ssa.Instruction, addr ssa.Value) {
		for _, r := range refs {
			switch x := r.(type) {
			case *ssa.Store:
				if x.Addr != addr {
					sl.bad = true
					continue
				}
				v := x.Val
				if ct, ok := v.(*ssa.ChangeType); ok {
					v = ct.X
				}
				f, ok := v.(*ssa.Function)
				if !ok || nil != f.Parent() || (nil != sl.fn && sl.fn != f) {
					sl.bad = true
					continue
				}
				sl.fn = f
				sl.nset++
			case *ssa.UnOp:
				if token.MUL != x.Op {
					sl.bad = true
				}
			case *ssa.DebugRef:
			default:
				sl.bad = true
			}
		}
	}
	var all []*ssa.Function
	var collect func(f *ssa.Function)
	collect = func(f *ssa.Function) {
		all = append(all, f)
		for _, a := range f.AnonFuncs {
			collect(a)
		}
	}
	for _, f := range tops {
		collect(f)
	}
	for _, pk := range p.SSA.AllPackages() {
		if strings.HasPrefix(pk.Pkg.Path(), ModPath) {
			if ini := pk.Func("init"); nil != ini {
				collect(ini)
			}
		}
	}
	for _, f := range all {
		for _, b := range f.Blocks {
			for _, i := range b.Instrs {
				switch x := i.(type) {
				case *ssa.FieldAddr:
					st := derefStruct(x.X.Type())
					if nil == st {
						continue
					}
					fv := st.Field(x.Field)
					if !isFuncT(fv.Type()) || nil == fv.Pkg() || !strings.HasPrefix(fv.Pkg().Path(), ModPath) {
						continue
					}
					note(get(fv, nil), *x.Referrers(), x)
				case *ssa.Field:
					/* Read off a struct value: a read. */
				default:
					var ops []*ssa.Value
					for _, o := range i.Operands(ops) {
						g, ok := (*o).(*ssa.Global)
						if !ok || !p.ownGlobal(g) || !isFuncT(g.Type().Underlying().(*types.Pointer).Elem()) {
							continue
						}
						note(get(nil, g), []ssa.Instruction{i}, g)
					}
				}
			}
		}
	}
	n := 0
	for _, f := range all {
		for _, b := range f.Blocks {
			for _, i := range b.Instrs {
				ci, ok := i.(ssa.CallInstruction)
				if !ok || ci.Common().IsInvoke() {
					continue
				}
				ld, ok := ci.Common().Value.(*ssa.UnOp)
				if !ok || token.MUL != ld.Op {
					continue
				}
				var sl *slot
				switch a := ld.X.(type) {
				case *ssa.FieldAddr:
					if st := derefStruct(a.X.Type()); nil != st {
						sl = fields[st.Field(a.Field)]
					}
				case *ssa.Global:
					sl = globals[a]
				}
				if nil == sl || sl.bad || nil == sl.fn || 0 == sl.nset {
					continue
				}
				if !types.Identical(sl.fn.Signature.Params(), ci.Common().Signature().Params()) {
					continue
				}
				ci.Common().Value = sl.fn
				n++
				if "" != os.Getenv("CRS_FLATDEBUG") {
					fmt.Fprintf(os.Stderr, "FUNCVAR call in %s is a call of %s\n", f, sl.fn)
				}
			}
		}
	}
	return n
}
