package main

// idxsafe.go: a small prover for slice/array index safety, used by C15 to
// decide "the decoder never panics on any input" for the index operations of
// lib/uu.  Integer SSA values are normalised to linear terms over atoms (loads
// of cells, parameters, lengths of slices, phis); facts come from the branch
// edges dominating the site (comparisons, and mask tests giving congruences),
// from definitions (len of a re-slice, of append, of bytes.Clone, of an
// iterator's chunk), from inductive invariants of captured integer cells, and
// from facts holding in the enclosing function at the call which runs a
// range-over-func body.  Phis are handled by case-splitting over their
// incoming edges with the facts of each edge.  Everything unproven is
// reported; nothing is assumed about run-time values.

import (
	"fmt"
	"go/token"
	"go/types"
	"os"
	"sort"
	"strings"

	"golang.org/x/tools/go/ssa"
)

// lterm is c + Σ co[a]·a.
type lterm struct {
	c  int64
	co map[ssa.Value]int64
}

func tConst(c int64) lterm { return lterm{c: c, co: map[ssa.Value]int64{}} }
func tAtom(a ssa.Value) lterm {
	return lterm{co: map[ssa.Value]int64{a: 1}}
}
func (t lterm) add(o lterm, k int64) lterm {
	r := lterm{c: t.c + k*o.c, co: map[ssa.Value]int64{}}
	for a, v := range t.co {
		r.co[a] = v
	}
	for a, v := range o.co {
		r.co[a] += k * v
		if 0 == r.co[a] {
			delete(r.co, a)
		}
	}
	return r
}
func (t lterm) scale(k int64) lterm { return tConst(0).add(t, k) }
func (t lterm) isConst() bool       { return 0 == len(t.co) }
func (t lterm) String() string {
	var ps []string
	for a, v := range t.co {
		n := a.Name()
		if _, isInt := a.Type().Underlying().(*types.Basic); !isInt {
			n = "len(" + n + ")"
		}
		ps = append(ps, fmt.Sprintf("%+d·%s", v, n))
	}
	sort.Strings(ps)
	return fmt.Sprintf("%d%s", t.c, strings.Join(ps, ""))
}

// bound is an optional integer.
type bound struct {
	ok bool
	v  int64
}

// ifacts is a set of facts valid at one program point (or on one edge).
type ifacts struct {
	ge   []lterm                 /* each term ≥ 0 */
	cong map[ssa.Value][2]int64  /* atom ≡ r (mod m) */
	sub  map[ssa.Value]ssa.Value /* phi → chosen edge value (case split) */
	subT map[ssa.Value]lterm     /* min/max/copy result → the operand it equals in this case */
}

func newFacts() *ifacts {
	return &ifacts{cong: map[ssa.Value][2]int64{}, sub: map[ssa.Value]ssa.Value{}, subT: map[ssa.Value]lterm{}}
}
func (f *ifacts) clone() *ifacts {
	n := newFacts()
	n.ge = append(n.ge, f.ge...)
	for k, v := range f.cong {
		n.cong[k] = v
	}
	for k, v := range f.sub {
		n.sub[k] = v
	}
	for k, v := range f.subT {
		n.subT[k] = v
	}
	return n
}

// idxProver holds the per-package state.
type idxProver struct {
	p       *Prog
	funcs   map[*ssa.Function]*ssa.Function /* function → top-level */
	cellLo  map[*ssa.Alloc]int64            /* proven inductive lower bounds of int cells */
	cellTry map[*ssa.Alloc]bool
	chunkEq map[*ssa.Function]int64 /* yield closure → exact chunk length, when provable */
	depth   int
	inNorm  map[ssa.Value]bool
}

// cellOfAddr resolves an address to the Alloc it denotes (through free vars).
func cellOfAddr(a ssa.Value) *ssa.Alloc {
	al, _ := resolveFree(a).(*ssa.Alloc)
	return al
}

// mayStoreCell: instruction i may change the cell (a store to it, or a call of
// a function value, which may be a closure capturing it).
func mayStoreCell(i ssa.Instruction, cell *ssa.Alloc) bool {
	switch x := i.(type) {
	case *ssa.Store:
		return cellOfAddr(x.Addr) == cell
	case *ssa.Call:
		if x.Common().IsInvoke() {
			return false
		}
		if nil == x.Common().StaticCallee() {
			if _, isB := x.Common().Value.(*ssa.Builtin); !isB {
				return true
			}
		}
	}
	return false
}

// loadRep returns the canonical representative of a load of a cell: the
// earliest dominating load of the same cell with no possible store between.
func loadRep(l *ssa.UnOp) ssa.Value {
	cell := cellOfAddr(l.X)
	if nil == cell {
		return l
	}
	best := ssa.Value(l)
	fn := l.Parent()
	eachInstr(fn, func(i ssa.Instruction) {
		o, ok := i.(*ssa.UnOp)
		if !ok || token.MUL != o.Op || o == l || cellOfAddr(o.X) != cell {
			return
		}
		if !instrDominates(o, l) {
			return
		}
		if nil != (reachQ{From: locOf(o), Block: func(j ssa.Instruction) bool { return j == ssa.Instruction(l) }, Target: func(j ssa.Instruction) bool { return mayStoreCell(j, cell) && canReach(locOf(j), l) }}).run() {
			return
		}
		/* Prefer the earliest (dominates the current best). */
		if bo, ok := best.(*ssa.UnOp); ok && (bo == l || instrDominates(o, bo)) {
			best = o
		}
	})
	return best
}

// norm normalises an integer value.
func (ip *idxProver) norm(v ssa.Value, f *ifacts) lterm {
	/* A phi substituted by an edge value which itself mentions the phi
	(i := i + 1 on a back edge) would recurse for ever: the inner
	occurrence stays an atom. */
	if nil == ip.inNorm {
		ip.inNorm = map[ssa.Value]bool{}
	}
	if ip.inNorm[v] {
		return tAtom(v)
	}
	ip.inNorm[v] = true
	defer delete(ip.inNorm, v)
	if w := f.subst(v); w != v {
		return ip.norm(w, f)
	}
	if t, ok := f.subT[v]; ok {
		return t
	}
	switch x := v.(type) {
	case *ssa.Const:
		if k, ok := constInt(x); ok {
			return tConst(k)
		}
	case *ssa.BinOp:
		switch x.Op {
		case token.ADD:
			return ip.norm(x.X, f).add(ip.norm(x.Y, f), 1)
		case token.SUB:
			/* Unsigned subtraction may wrap: keep as atom unless int. */
			if _, uns, ok := isUnsigned(x.Type()); ok && !uns {
				return ip.norm(x.X, f).add(ip.norm(x.Y, f), -1)
			}
		case token.MUL:
			a, b := ip.norm(x.X, f), ip.norm(x.Y, f)
			if a.isConst() {
				return b.scale(a.c)
			}
			if b.isConst() {
				return a.scale(b.c)
			}
		}
	case *ssa.Call:
		if bi, ok := x.Common().Value.(*ssa.Builtin); ok && ("len" == bi.Name() || "cap" == bi.Name()) && "len" == bi.Name() {
			return ip.lenOf(x.Common().Args[0], f)
		}
	case *ssa.UnOp:
		if token.MUL == x.Op {
			return tAtom(loadRep(x))
		}
	case *ssa.Convert:
		/* Same-value conversions between signed integer types wide enough. */
		if bits, uns, ok := isUnsigned(x.X.Type()); ok {
			if b2, _, ok2 := isUnsigned(x.Type()); ok2 && b2 > bits || (ok2 && b2 == bits && !uns) {
				_ = uns
				return tAtom(x) /* atom with intrinsic bounds, see atomBounds */
			}
		}
	}
	return tAtom(v)
}

// lenOf returns the term for len(x).
func (ip *idxProver) lenOf(x ssa.Value, f *ifacts) lterm {
	x = f.subst(x)
	switch y := x.(type) {
	case *ssa.Const:
		return tConst(0)
	case *ssa.Slice:
		var lo, hi lterm
		lo = tConst(0)
		if nil != y.Low {
			lo = ip.norm(y.Low, f)
		}
		if nil != y.High {
			hi = ip.norm(y.High, f)
		} else if pt, ok := y.X.Type().Underlying().(*types.Pointer); ok {
			if at, ok := pt.Elem().Underlying().(*types.Array); ok {
				hi = tConst(at.Len())
			} else {
				return tAtom(x)
			}
		} else {
			hi = ip.lenOf(y.X, f)
		}
		return hi.add(lo, -1)
	case *ssa.Call:
		if bi, ok := y.Common().Value.(*ssa.Builtin); ok && "append" == bi.Name() {
			base := ip.lenOf(y.Common().Args[0], f)
			if 2 == len(y.Common().Args) {
				return base.add(ip.lenOf(y.Common().Args[1], f), 1)
			}
			return base
		}
		switch calleeName(y.Common()) {
		case "bytes.Clone", "slices.Clone", "bytes.ToUpper", "bytes.ToLower":
			/* (ASCII-only case mapping would be needed for ToUpper/ToLower
			in general; on bytes ≥ 0x80 the length can change, so only the
			clones are exact.) */
			if n := calleeName(y.Common()); "bytes.Clone" == n || "slices.Clone" == n {
				return ip.lenOf(y.Common().Args[0], f)
			}
		case "bytes.ReplaceAll":
			/* Replacing one byte by one byte keeps the length. */
			a, okA := constByteSlice(y.Common().Args[1])
			b, okB := constByteSlice(y.Common().Args[2])
			if okA && okB && 1 == len(a) && 1 == len(b) {
				return ip.lenOf(y.Common().Args[0], f)
			}
		}
	case *ssa.UnOp:
		if token.MUL == y.Op {
			if _, isCell := resolveFree(y.X).(*ssa.Alloc); isCell {
				return tAtom(loadRep(y))
			}
		}
	}
	return tAtom(x)
}

// atomBounds returns intrinsic bounds of an atom.
func (ip *idxProver) atomBounds(a ssa.Value) (lo, hi bound) {
	if _, isInt := a.Type().Underlying().(*types.Basic); !isInt || isSliceLike(a.Type()) {
		/* A length. */
		lo = bound{true, 0}
		if pa, ok := a.(*ssa.Parameter); ok {
			if it := iteratorOf(pa.Parent()); nil != it && "slices.Chunk" == calleeName(it.Common()) {
				if n, ok := constInt(it.Common().Args[1]); ok && n >= 1 {
					lo, hi = bound{true, 1}, bound{true, n}
					if k, ok := ip.chunkEq[pa.Parent()]; ok {
						lo, hi = bound{true, k}, bound{true, k}
					}
				}
			}
		}
		return
	}
	switch x := a.(type) {
	case *ssa.Convert:
		if bits, uns, ok := isUnsigned(x.X.Type()); ok && uns && bits < 63 {
			return bound{true, 0}, bound{true, int64(1)<<bits - 1}
		}
	case *ssa.UnOp:
		if token.MUL == x.Op {
			if cell := cellOfAddr(x.X); nil != cell {
				if k, ok := ip.cellLo[cell]; ok {
					lo = bound{true, k}
				}
			}
			if bits, uns, ok := isUnsigned(x.Type()); ok && uns && bits < 63 {
				lo = bound{true, 0}
				hi = bound{true, int64(1)<<bits - 1}
			}
		}
	case *ssa.Phi:
		/* A counter: constants on the way in, itself plus a positive
		constant on the way round (range indexes are phi(-1, phi+1)). */
		if c0, _, ok := counterPhi(x); ok {
			lo = bound{true, c0}
		}
	case *ssa.BinOp:
		if bits, uns, ok := isUnsigned(x.Type()); ok && uns && bits < 63 {
			return bound{true, 0}, bound{true, int64(1)<<bits - 1}
		}
		if token.AND == x.Op {
			if k, ok := constInt(x.Y); ok && k >= 0 {
				return bound{true, 0}, bound{true, k}
			}
		}
		if token.REM == x.Op {
			if k, ok := constInt(x.Y); ok && k > 0 {
				return bound{true, -(k - 1)}, bound{true, k - 1}
			}
		}
	}
	if bits, uns, ok := isUnsigned(a.Type()); ok && uns && bits < 63 {
		return bound{true, 0}, bound{true, int64(1)<<bits - 1}
	}
	return
}

func isSliceLike(t types.Type) bool {
	switch t.Underlying().(type) {
	case *types.Slice, *types.Array:
		return true
	}
	if b, ok := t.Underlying().(*types.Basic); ok && 0 != b.Info()&types.IsString {
		return true
	}
	return false
}

// bounds computes atom bounds under the facts (single-atom facts tighten).
func (ip *idxProver) bounds(f *ifacts) (map[ssa.Value]bound, map[ssa.Value]bound) {
	lo, hi := map[ssa.Value]bound{}, map[ssa.Value]bound{}
	get := func(a ssa.Value) {
		if _, ok := lo[a]; ok {
			return
		}
		l, h := ip.atomBounds(a)
		lo[a], hi[a] = l, h
	}
	for _, t := range f.ge {
		for a := range t.co {
			get(a)
		}
	}
	for it := 0; it < 4; it++ {
		for _, t := range f.ge {
			if 1 != len(t.co) {
				continue
			}
			for a, k := range t.co {
				/* c + k·a ≥ 0 */
				switch {
				case 1 == k:
					if b := -t.c; !lo[a].ok || lo[a].v < b {
						lo[a] = bound{true, b}
					}
				case -1 == k:
					if b := t.c; !hi[a].ok || hi[a].v > b {
						hi[a] = bound{true, b}
					}
				}
			}
		}
		/* Congruences lift lower bounds. */
		for a, c := range f.cong {
			get(a)
			if lo[a].ok {
				m, r := c[0], c[1]
				v := lo[a].v
				d := ((r-v)%m + m) % m
				lo[a] = bound{true, v + d}
			}
		}
	}
	return lo, hi
}

// lower returns a lower bound of t under f.
func (ip *idxProver) lower(t lterm, f *ifacts) bound {
	lo, hi := ip.bounds(f)
	r := t.c
	for a, k := range t.co {
		l, h := lo[a], hi[a]
		if !l.ok && !h.ok {
			l, h = ip.atomBounds(a)
		}
		if k > 0 {
			if !l.ok {
				return bound{}
			}
			r += k * l.v
		} else {
			if !h.ok {
				return bound{}
			}
			r += k * h.v
		}
	}
	return bound{true, r}
}

// proveGE proves t ≥ 0 under f.
func (ip *idxProver) proveGE(t lterm, f *ifacts) bool {
	if b := ip.lower(t, f); b.ok && b.v >= 0 {
		return true
	}
	/* Relational: t − fact is a non-negative quantity. */
	for _, g := range f.ge {
		d := t.add(g, -1)
		if b := ip.lower(d, f); b.ok && b.v >= 0 {
			return true
		}
		/* A fact whose residue is known is at least that residue:
		g ≥ 0 and g ≡ r (mod m), 0 ≤ r < m, give g − r ≥ 0. */
		if r, ok := ip.residue(g, f); ok && r > 0 {
			d := t.add(g, -1).add(tConst(r), 1)
			if b := ip.lower(d, f); b.ok && b.v >= 0 {
				return true
			}
		}
	}
	return false
}

// congOf: what is known about a modulo something: from a mask test on the
// path, or because a is a counter stepped by a constant.
func (ip *idxProver) congOf(a ssa.Value, f *ifacts) (m, r int64, ok bool) {
	if c, have := f.cong[a]; have {
		return c[0], c[1], true
	}
	if ph, isPhi := a.(*ssa.Phi); isPhi {
		if c0, k, isCounter := counterPhi(ph); isCounter && k > 1 {
			return k, ((c0 % k) + k) % k, true
		}
	}
	return 0, 0, false
}

// residue: g modulo the common modulus of its atoms, when every atom has one.
func (ip *idxProver) residue(g lterm, f *ifacts) (int64, bool) {
	if 0 == len(g.co) {
		return 0, false
	}
	var m int64
	for a := range g.co {
		am, _, ok := ip.congOf(a, f)
		if !ok {
			return 0, false
		}
		if 0 == m {
			m = am
		} else {
			m = gcd64(m, am)
		}
	}
	if m <= 1 {
		return 0, false
	}
	r := g.c
	for a, k := range g.co {
		_, ar, _ := ip.congOf(a, f)
		r += k * ar
	}
	return ((r % m) + m) % m, true
}

// counterPhi: ph is constant on every way in and itself plus one positive
// constant step on every way round.  Returns the least initial value and the
// step (the initial values being congruent modulo the step).
func counterPhi(ph *ssa.Phi) (c0, step int64, ok bool) {
	first := true
	nStep := 0
	for _, e := range ph.Edges {
		if k, isC := constInt(e); isC {
			if first || k < c0 {
				c0 = k
			}
			first = false
			continue
		}
		b, isB := e.(*ssa.BinOp)
		if !isB || token.ADD != b.Op || b.X != ssa.Value(ph) {
			return 0, 0, false
		}
		k, isC := constInt(b.Y)
		if !isC || k <= 0 || (0 != nStep && k != step) {
			return 0, 0, false
		}
		step = k
		nStep++
	}
	if first || 0 == nStep {
		return 0, 0, false
	}
	/* All initial values agree modulo the step. */
	for _, e := range ph.Edges {
		if k, isC := constInt(e); isC && 0 != (k-c0)%step {
			return c0, 1, true
		}
	}
	return c0, step, true
}

// contradictory: some atom has lo > hi, or a constant fact is negative.
func (ip *idxProver) contradictory(f *ifacts) bool {
	for _, t := range f.ge {
		if t.isConst() && t.c < 0 {
			return true
		}
	}
	lo, hi := ip.bounds(f)
	for a, l := range lo {
		if h := hi[a]; l.ok && h.ok && l.v > h.v {
			return true
		}
	}
	return false
}

// addCond adds the facts of a branch condition being `val`.
func (ip *idxProver) addCond(cond ssa.Value, val bool, f *ifacts) {
	for {
		if u, ok := cond.(*ssa.UnOp); ok && token.NOT == u.Op {
			cond, val = u.X, !val
			continue
		}
		break
	}
	b, ok := cond.(*ssa.BinOp)
	if !ok {
		return
	}
	if _, _, isInt := isUnsigned(b.X.Type()); !isInt {
		return
	}
	x, y := ip.norm(b.X, f), ip.norm(b.Y, f)
	op := b.Op
	if !val {
		switch op {
		case token.LSS:
			op = token.GEQ
		case token.LEQ:
			op = token.GTR
		case token.GTR:
			op = token.LEQ
		case token.GEQ:
			op = token.LSS
		case token.EQL:
			op = token.NEQ
		case token.NEQ:
			op = token.EQL
		}
	}
	switch op {
	case token.LSS: /* x < y: y − x − 1 ≥ 0 */
		f.ge = append(f.ge, y.add(x, -1).add(tConst(1), -1))
	case token.LEQ:
		f.ge = append(f.ge, y.add(x, -1))
	case token.GTR:
		f.ge = append(f.ge, x.add(y, -1).add(tConst(1), -1))
	case token.GEQ:
		f.ge = append(f.ge, x.add(y, -1))
	case token.EQL:
		f.ge = append(f.ge, x.add(y, -1), y.add(x, -1))
		/* Mask test: (T & m) == 0. */
		ip.addMask(b.X, b.Y, f)
		ip.addMask(b.Y, b.X, f)
	case token.NEQ:
		d := x.add(y, -1)
		if lb := ip.lower(d, f); lb.ok && lb.v >= 0 {
			f.ge = append(f.ge, d.add(tConst(1), -1))
		} else if ub := ip.lower(d.scale(-1), f); ub.ok && ub.v >= 0 {
			f.ge = append(f.ge, d.scale(-1).add(tConst(1), -1))
		}
	}
}

// addMask: masked is (T & m), other is the constant 0 ⇒ T ≡ 0 (mod m+1).
func (ip *idxProver) addMask(masked, other ssa.Value, f *ifacts) {
	if k, ok := constInt(other); !ok || 0 != k {
		return
	}
	a, ok := masked.(*ssa.BinOp)
	if !ok || token.AND != a.Op {
		return
	}
	m, ok := constInt(a.Y)
	t := a.X
	if !ok {
		m, ok = constInt(a.X)
		t = a.Y
	}
	if !ok || m <= 0 || 0 != (m+1)&m {
		return
	}
	tt := ip.norm(t, f)
	if 1 != len(tt.co) {
		return
	}
	for atom, k := range tt.co {
		if 1 == k {
			/* atom + c ≡ 0 (mod m+1) */
			mod := m + 1
			f.cong[atom] = [2]int64{mod, ((-tt.c)%mod + mod) % mod}
		}
	}
}

// factsAt gathers the facts of every branch edge dominating instruction i.
func (ip *idxProver) factsAt(i ssa.Instruction) *ifacts {
	f := newFacts()
	fn := i.Parent()
	for _, b := range fn.Blocks {
		ifi := blockIf(b)
		if nil == ifi {
			continue
		}
		for k := 0; k < 2; k++ {
			if edgeDominates(ifi, k, i) {
				ip.addCond(ifi.Cond, 0 == k, f)
			}
		}
	}
	return f
}

// factsOnEdge: facts holding when control flows pred → succ.
func (ip *idxProver) factsOnEdge(pred, succ *ssa.BasicBlock) *ifacts {
	last := pred.Instrs[len(pred.Instrs)-1]
	f := ip.factsAt(last)
	if ifi, ok := last.(*ssa.If); ok && pred.Succs[0] != pred.Succs[1] {
		ip.addCond(ifi.Cond, pred.Succs[0] == succ, f)
	}
	return f
}

// phisIn lists phi atoms (int phis, or slice phis standing for their length).
func phisIn(t lterm, f *ifacts) []*ssa.Phi {
	var out []*ssa.Phi
	for a := range t.co {
		if ph, ok := a.(*ssa.Phi); ok {
			if _, done := f.sub[ph]; !done {
				out = append(out, ph)
			}
		}
	}
	sort.Slice(out, func(i, j int) bool { return out[i].Name() < out[j].Name() })
	return out
}

// prove: mk builds the term to be shown ≥ 0 under the given facts (so that
// substitutions of phis are applied when re-normalising).
func (ip *idxProver) prove(mk func(f *ifacts) lterm, f *ifacts, depth int) bool {
	t := mk(f)
	if ip.proveGE(t, f) {
		return true
	}
	if depth >= 3 {
		return false
	}
	/* min(a, b), max(a, b), copy(dst, src) (= min of the lengths): the
	result is one of the two, the other being no smaller / no larger. */
	for _, a := range minLikeIn(t, f) {
		x, y, isMin, ok := ip.minLikeOf(a, f)
		if !ok {
			continue
		}
		all := true
		for k := 0; k < 2 && all; k++ {
			eq, other := x, y
			if 1 == k {
				eq, other = y, x
			}
			nf := f.clone()
			nf.subT[a] = eq
			if isMin {
				nf.ge = append(nf.ge, other.add(eq, -1))
			} else {
				nf.ge = append(nf.ge, eq.add(other, -1))
			}
			if ip.contradictory(nf) {
				continue
			}
			if !ip.prove(mk, nf, depth+1) {
				all = false
			}
		}
		if all {
			return true
		}
	}
	for _, ph := range phisIn(t, f) {
		h := ph.Block()
		all := true
		for k, e := range ph.Edges {
			if e == ssa.Value(ph) {
				continue
			}
			ef := ip.factsOnEdge(h.Preds[k], h)
			nf := f.clone()
			if h.Dominates(h.Preds[k]) {
				/* A way round a loop: the value is what the last trip
				computed, and what is known about it is what held on that
				trip's way back (the edge facts).  Facts gathered at the site
				speak of this trip's values of everything the loop computes,
				the edge facts of the last trip's: the two are only mixed
				where they speak of values the loop does not compute. */
				if !ip.loopInvariantBut(t, h, ph) {
					all = false
					break
				}
				nf.ge = nil
				nf.cong = map[ssa.Value][2]int64{}
				for _, g := range f.ge {
					if ip.loopInvariantBut(g, h, nil) {
						nf.ge = append(nf.ge, g)
					}
				}
				for a, c := range f.cong {
					if !inLoopValue(a, h) {
						nf.cong[a] = c
					}
				}
			}
			nf.ge = append(nf.ge, ef.ge...)
			for a, c := range ef.cong {
				nf.cong[a] = c
			}
			nf.sub[ph] = e
			/* Facts mentioning the phi itself must be re-expressed: they
			were normalised with the phi as an atom; add them again with
			the substitution by re-gathering at the site is not possible
			here, so keep both. */
			if ip.contradictory(nf) {
				if idxDebug {
					fmt.Printf("    split %s edge %d: infeasible\n", ph.Name(), k)
				}
				continue /* Infeasible edge. */
			}
			if idxDebug {
				fmt.Printf("    split %s edge %d (%s): term %s facts %v cong %v\n", ph.Name(), k, e.Name(), mk(nf), nf.ge, nf.cong)
			}
			if !ip.prove(mk, nf, depth+1) {
				all = false
				break
			}
		}
		if all {
			return true
		}
	}
	return false
}

// minLikeIn lists the atoms of t which are results of min, max or copy and not
// yet decided in f.
func minLikeIn(t lterm, f *ifacts) []ssa.Value {
	var out []ssa.Value
	for a := range t.co {
		c, ok := a.(*ssa.Call)
		if !ok {
			continue
		}
		if _, done := f.subT[a]; done {
			continue
		}
		if bi, isB := c.Common().Value.(*ssa.Builtin); isB {
			switch bi.Name() {
			case "min", "max", "copy":
				if 2 == len(c.Common().Args) {
					out = append(out, a)
				}
			}
		}
	}
	sort.Slice(out, func(i, j int) bool { return out[i].Name() < out[j].Name() })
	return out
}

// minLikeOf: the two quantities of which a is the smaller (or the larger).
func (ip *idxProver) minLikeOf(a ssa.Value, f *ifacts) (x, y lterm, isMin, ok bool) {
	c := a.(*ssa.Call)
	args := c.Common().Args
	switch c.Common().Value.(*ssa.Builtin).Name() {
	case "min", "max":
		if _, _, isInt := isUnsigned(args[0].Type()); !isInt {
			return x, y, false, false
		}
		return ip.norm(args[0], f), ip.norm(args[1], f), "min" == c.Common().Value.(*ssa.Builtin).Name(), true
	case "copy":
		return ip.lenOf(args[0], f), ip.lenOf(args[1], f), true, true
	}
	return x, y, false, false
}

// inLoopValue: v is computed by the loop headed by h (anew on every trip).
func inLoopValue(v ssa.Value, h *ssa.BasicBlock) bool {
	i, ok := v.(ssa.Instruction)
	if !ok || nil == i.Block() {
		return false
	}
	return h.Dominates(i.Block())
}

// loopInvariantBut: every atom of t other than `but` is a value the loop
// headed by h does not compute.  (Blocks after the loop are dominated by its
// head as well: values computed there count as the loop's, which only makes
// the prover decline.)
func (ip *idxProver) loopInvariantBut(t lterm, h *ssa.BasicBlock, but ssa.Value) bool {
	for a := range t.co {
		if a != but && inLoopValue(a, h) {
			return false
		}
	}
	return true
}

// idxSite is one bounds obligation.
type idxSite struct {
	Instr ssa.Instruction
	What  string
	OK    bool
	Why   string
}

// checkFunction proves every index/slice operation of fn.
func (ip *idxProver) checkFunction(fn *ssa.Function) []idxSite {
	var out []idxSite
	eachInstr(fn, func(i ssa.Instruction) {
		/* Compiler-generated blocks. */
		if c := i.Block().Comment; "yield-invalid" == c || strings.HasPrefix(c, "rangefunc.resume.busy") {
			return
		}
		var idx ssa.Value
		var container ssa.Value
		switch x := i.(type) {
		case *ssa.IndexAddr:
			idx, container = x.Index, x.X
		case *ssa.Index:
			idx, container = x.Index, x.X
		case *ssa.Slice:
			out = append(out, ip.checkSlice(x))
			return
		default:
			return
		}
		/* Range loops over the same container are safe by construction only
		if the guard is present; we prove it like any other site. */
		f := ip.factsAt(i)
		limit := func(ff *ifacts) lterm {
			switch t := container.Type().Underlying().(type) {
			case *types.Pointer:
				if at, ok := t.Elem().Underlying().(*types.Array); ok {
					return tConst(at.Len())
				}
			case *types.Array:
				return tConst(t.Len())
			}
			return ip.lenOf(container, ff)
		}
		okLo := ip.prove(func(ff *ifacts) lterm { return ip.norm(idx, ff) }, f, 0)
		okHi := ip.prove(func(ff *ifacts) lterm { return limit(ff).add(ip.norm(idx, ff), -1).add(tConst(1), -1) }, f, 0)
		s := idxSite{Instr: i, What: fmt.Sprintf("%s[%s]", container.Name(), ip.norm(idx, f)), OK: okLo && okHi}
		if !okLo {
			s.Why = "index may be negative"
		} else if !okHi {
			s.Why = fmt.Sprintf("no proof that %s < %s", ip.norm(idx, f), limit(f))
		}
		out = append(out, s)
	})
	return out
}

func (ip *idxProver) checkSlice(x *ssa.Slice) idxSite {
	f := ip.factsAt(x)
	s := idxSite{Instr: x, What: "slice " + x.X.Name(), OK: true}
	/* Full slice of an array or slice: always in range. */
	if nil == x.Low && nil == x.High && nil == x.Max {
		return s
	}
	capTerm := func(ff *ifacts) lterm {
		if pt, ok := x.X.Type().Underlying().(*types.Pointer); ok {
			if at, ok := pt.Elem().Underlying().(*types.Array); ok {
				return tConst(at.Len())
			}
		}
		/* We require high ≤ len(x), which implies ≤ cap(x). */
		return ip.lenOf(x.X, ff)
	}
	lo := func(ff *ifacts) lterm {
		if nil == x.Low {
			return tConst(0)
		}
		return ip.norm(x.Low, ff)
	}
	hi := func(ff *ifacts) lterm {
		if nil == x.High {
			return capTerm(ff)
		}
		return ip.norm(x.High, ff)
	}
	if nil != x.Max {
		s.OK, s.Why = false, "three-index slice not handled"
		return s
	}
	if !ip.prove(lo, f, 0) {
		s.OK, s.Why = false, "low bound may be negative"
		return s
	}
	if !ip.prove(func(ff *ifacts) lterm { return hi(ff).add(lo(ff), -1) }, f, 0) {
		s.OK, s.Why = false, fmt.Sprintf("no proof that %s ≤ %s", lo(f), hi(f))
		return s
	}
	if nil != x.High && !ip.prove(func(ff *ifacts) lterm { return capTerm(ff).add(hi(ff), -1) }, f, 0) {
		s.OK, s.Why = false, fmt.Sprintf("no proof that %s ≤ %s", hi(f), capTerm(f))
		return s
	}
	return s
}

// establishCellInvariants tries "≥ 0" for every captured int cell of the
// functions under analysis: every store must be provably ≥ 0 assuming loads
// are.
func (ip *idxProver) establishCellInvariants(fns []*ssa.Function) {
	cells := map[*ssa.Alloc]bool{}
	for _, fn := range fns {
		eachInstr(fn, func(i ssa.Instruction) {
			if al, ok := i.(*ssa.Alloc); ok && al.Heap {
				if pt, ok := al.Type().(*types.Pointer); ok {
					if _, _, isInt := isUnsigned(pt.Elem()); isInt {
						cells[al] = true
					}
				}
			}
		})
	}
	for cell := range cells {
		ip.cellLo[cell] = 0 /* Inductive hypothesis. */
		ok := true
		for _, st := range storesTo(cell) {
			f := ip.factsAt(st)
			if !ip.prove(func(ff *ifacts) lterm { return ip.norm(st.Val, ff) }, f, 0) {
				ok = false
			}
		}
		if idxDebug {
			fmt.Printf("cell %s: invariant >=0 %v (%d stores)\n", cell.Comment, ok, len(storesTo(cell)))
			for _, st := range storesTo(cell) {
				f := ip.factsAt(st)
				fmt.Printf("  store %s in %s: term %s facts %v proved=%v\n", st.Val.Name(), st.Parent().Name(), ip.norm(st.Val, f), f.ge, ip.prove(func(ff *ifacts) lterm { return ip.norm(st.Val, ff) }, f, 0))
			}
		}
		if !ok {
			delete(ip.cellLo, cell)
		}
	}
}

// establishChunkLengths: for a yield closure fed by slices.Chunk(s, n), if at
// the iterator call len(s) ≡ 0 (mod n) is provable, every chunk has length n.
func (ip *idxProver) establishChunkLengths(fns []*ssa.Function) {
	for _, fn := range fns {
		it := iteratorOf(fn)
		if nil == it || "slices.Chunk" != calleeName(it.Common()) {
			continue
		}
		n, ok := constInt(it.Common().Args[1])
		if !ok || n < 1 {
			continue
		}
		f := ip.factsAt(it)
		t := ip.lenOf(it.Common().Args[0], f)
		/* Congruence of t modulo n. */
		r := ((t.c % n) + n) % n
		known := true
		for a, k := range t.co {
			c, ok := f.cong[a]
			if !ok || 0 != c[0]%n {
				if 0 == k%n {
					continue
				}
				known = false
				break
			}
			r = (r + ((k%n)+n)%n*(c[1]%n)) % n
		}
		if known && 0 == r {
			ip.chunkEq[fn] = n
		}
	}
}

var idxDebug = "" != os.Getenv("IDXDEBUG")

// subst follows the substitution chain of v; a cyclic chain (a=b and b=a
// learnt on different edges) ends at the value where the cycle closes.
func (f *ifacts) subst(v ssa.Value) ssa.Value {
	seen := map[ssa.Value]bool{}
	for k := 0; k < 64; k++ {
		s, ok := f.sub[v]
		if !ok || seen[s] || s == v {
			return v
		}
		seen[v] = true
		v = s
	}
	return v
}
