package main

// C20 — start-up failures and normal exits are reported cleanly, never as a
// crash.

import (
	"os"
	"fmt"
	"go/token"
	"go/types"
	"strings"

	"golang.org/x/tools/go/ssa"
)

func init() {
	register("C20", &propDef{
		Run:         checkC20,
		Explanation: "Static decision of the structural clauses of C20. (1) No use before the error check, module-wide: for every call returning (…, error) each dereferencing use of a nillable result (method call, field access, call) is dominated by the nil edge of a test of that call's error; and no result of such a call is dereferenced on the non-nil edge of its paired error, also when results and error travel through captured variables into deferred closures. (2) Every set-up step of rmain (broker, log file, Ctrl+I generation when printing, template printing, icanhazip, operator shell, HTTPS server) tests its error, and from the error edge every path reports a message containing that error and leaves with log.Fatal* or a non-zero return. (3) Errors are not swallowed along the start-up chain (sstls, hsrv.New, opshell.New, iobroker.New): from the non-nil edge of a tested error no return whose error result is nil (or known nil on that path) is reachable unless the error was reported; untested errors are only those of an explicit allow-list (Close, Restore, in-memory writers). (4) Nothing bypasses terminal restoration: after opshell.New succeeds rmain registers the deferred cleanup before anything else can return, no os.Exit / log.Fatal* / log.Panic* / explicit panic is reachable in rmain after that point nor exists anywhere else in the module's libraries, main is os.Exit(rmain()); inside opshell.New every error return after the TTY was opened calls the cleanup, and the cleanup restores the state MakeRaw returned for the same descriptor. Run-time panics other than those excluded by (1), and the terminal's actual mode, are outside. The report on rmain's fatal set-up edges must be written by the reporting call itself: module wrappers which only send on a channel do not count.",
		Assumptions: []string{"a callee returning a non-nil error may return nil/zero other results", "deferred functions run on return but not on os.Exit / log.Fatal"},
	})
}

func nillable(t types.Type) bool {
	switch t.Underlying().(type) {
	case *types.Pointer, *types.Signature, *types.Interface, *types.Map, *types.Chan:
		return true
	}
	return false
}

func isErrorType(t types.Type) bool { return "error" == t.String() }

// errCalls lists calls of fn returning a tuple whose last element is error.
func errCalls(fn *ssa.Function) []*ssa.Call {
	var out []*ssa.Call
	eachInstr(fn, func(i ssa.Instruction) {
		c, ok := i.(*ssa.Call)
		if !ok {
			return
		}
		tu, ok := c.Type().(*types.Tuple)
		if !ok || tu.Len() < 2 || !isErrorType(tu.At(tu.Len()-1).Type()) {
			return
		}
		out = append(out, c)
	})
	return out
}

// derefUses returns the instructions which dereference v (or would panic on a
// nil v).
func derefUses(v ssa.Value) []ssa.Instruction {
	var out []ssa.Instruction
	seen := map[ssa.Value]bool{}
	var walk func(v ssa.Value)
	walk = func(v ssa.Value) {
		if seen[v] {
			return
		}
		seen[v] = true
		for _, ref := range *v.Referrers() {
			switch x := ref.(type) {
			case *ssa.FieldAddr:
				if x.X == v {
					out = append(out, x)
				}
			case *ssa.IndexAddr:
				if x.X == v {
					out = append(out, x)
				}
			case *ssa.UnOp:
				if token.MUL == x.Op && x.X == v {
					out = append(out, x)
				}
			case ssa.CallInstruction:
				c := x.Common()
				if c.IsInvoke() && c.Value == v {
					out = append(out, x)
					continue
				}
				if !c.IsInvoke() && c.Value == v {
					out = append(out, x) /* Call of a nil func value. */
					continue
				}
				if sc := c.StaticCallee(); nil != sc && nil != sc.Signature.Recv() && len(c.Args) > 0 && c.Args[0] == v {
					/* Method call with v as receiver: a nil pointer
					receiver is dereferenced by virtually every method. */
					if _, isPtr := sc.Signature.Recv().Type().(*types.Pointer); isPtr {
						out = append(out, x)
					}
				}
			case *ssa.MakeClosure:
				/* Bound method value m := v.M → dereferenced when called; treat the creation as a use. */
				if f, ok := x.Fn.(*ssa.Function); ok && strings.HasSuffix(f.Name(), "$bound") {
					out = append(out, x)
				} else if ok {
					/* Captured (by value) by a function literal which
					dereferences it: the literal can run any time from
					its creation on, so that is where v must be good. */
					for k, b := range x.Bindings {
						if b == v && k < len(f.FreeVars) && 0 != len(derefUses(f.FreeVars[k])) {
							out = append(out, x)
						}
					}
				}
			case *ssa.ChangeType:
				walk(x)
			case *ssa.MakeInterface:
				/* Stored in an interface: not a dereference. */
			case *ssa.Phi:
				/* Merged with other values: give up on this edge. */
			}
		}
	}
	walk(v)
	return out
}

func checkC20(p *Prog, r *Report) {
	rUse := r.Rule("use-before-error-check", "no nillable result of a fallible call is dereferenced before (or on the failing side of) the test of its error")
	rStep := r.Rule("setup-steps-fatal", "every set-up step of rmain reports its error and exits non-zero")
	rSwal := r.Rule("errors-not-swallowed", "along the start-up chain a tested error never leads to a success return unless reported; only allow-listed errors go untested")
	rRest := r.Rule("restoration-not-bypassed", "cleanup is deferred first after the shell is set up; no exit call can skip it; New's own error paths clean up")
	/* -print-ctrl-i reports a source it cannot convert: the generator hands
	back the conversion's own error, and never an empty success in its
	place (C17's rule, under this property's start-up clause). */
	/* A damaged cache is reported, not a crash: reading the cache never
	indexes what it parsed (the archive's members, the PEM blocks) at a
	fixed position without having looked at how many there are. */
	{
		ruI := r.Rule("cache-parse-total", "in lib/sstls no slice obtained from parsed data is indexed at a constant position without a dominating test of its length")
		nI := 0
		for _, fn := range p.Funcs() {
			if nil == fn.Pkg || !strings.HasSuffix(fn.Pkg.Pkg.Path(), "/"+sstlsPkg) {
				continue
			}
			eachInstr(fn, func(i ssa.Instruction) {
				ia, ok := i.(*ssa.IndexAddr)
				if !ok {
					return
				}
				if _, isSlice := ia.X.Type().Underlying().(*types.Slice); !isSlice {
					return
				}
				if _, isC := constInt(ia.Index); !isC {
					return
				}
				/* tls.X509KeyPair succeeds only with at least one certificate. */
				if fv, base := loadedField(stripConv(resolveCell(ia.X), false)); nil != fv && "Certificate" == fv.Name() && nil != base && typeIs(base.Type(), "crypto/tls", "Certificate") {
					return
				}
				/* Slices made here with a known length are fine. */
				switch x := stripConv(resolveCell(ia.X), false).(type) {
				case *ssa.Slice:
					if _, isAl := x.X.(*ssa.Alloc); isAl {
						return
					}
				case *ssa.MakeSlice:
					return
				}
				nI++
				c := fmt.Sprintf("%s:index#%d", fnName(fn), nI)
				tested := false
				for _, b := range fn.Blocks {
					ifi := blockIf(b)
					if nil == ifi {
						continue
					}
					if !operandsReach(ifi.Cond, func(v ssa.Value) bool {
						lc, isCall := v.(*ssa.Call)
						if !isCall {
							return false
						}
						bi, isB := lc.Common().Value.(*ssa.Builtin)
						return isB && "len" == bi.Name() && 1 == len(lc.Common().Args) && resolveCell(lc.Common().Args[0]) == resolveCell(ia.X)
					}) {
						continue
					}
					if edgeDominates(ifi, 0, i) || edgeDominates(ifi, 1, i) {
						tested = true
					}
				}
				if tested {
					ruI.OK(c, posOf(i), "below a test of the slice's length")
				} else {
					ruI.Bad(c, posOf(i), "a slice which comes from parsed data is indexed at a fixed position without its length having been tested: a cache file which is empty, cut short or not an archive makes the program panic instead of reporting it")
				}
			})
		}
		if 0 == nI {
			ruI.OK("lib/sstls:no-fixed-index", token.NoPos, "no slice is indexed at a constant position")
		}
	}
	/* The fatal reports of start-up go through the standard logger: it must
	still write to standard error.  slog.SetDefault re-points the standard
	logger at the slog handler (the -log file, or nowhere); log.SetOutput
	says so outright. */
	{
		ruL := r.Rule("reports-reach-stderr", "nothing re-points the standard logger, through which start-up failures are reported, away from standard error (slog.SetDefault, log.SetOutput)")
		nL := 0
		for _, fn := range p.Funcs() {
			eachInstr(fn, func(i ssa.Instruction) {
				c := callCommon(i)
				if nil == c {
					return
				}
				switch n := calleeName(c); n {
				case "log/slog.SetDefault", "log.SetOutput":
					nL++
					ruL.Bad(fnName(fn)+"→"+n, posOf(i), "%s re-points the standard logger: log.Fatalf's report of a start-up failure goes to the log file (or nowhere) instead of standard error, and the program exits non-zero in silence", n)
				case "(*log.Logger).SetOutput":
					if 0 != len(c.Args) {
						if dc, ok := c.Args[0].(*ssa.Call); ok && "log.Default" == calleeName(dc.Common()) {
							nL++
							ruL.Bad(fnName(fn)+"→"+n, posOf(i), "log.Default().SetOutput re-points the standard logger away from standard error")
						}
					}
				}
			})
		}
		if 0 == nL {
			ruL.OK("module:standard-logger", token.NoPos, "the standard logger is left writing to standard error")
		}
	}
	checkSourcesConverted(p, r.Rule("missing-source-reported", "a Ctrl+I source which does not exist fails the conversion (C17's rule): the sources named are converted as named, not expanded as patterns first"))
	checkCtrlIGenerator(p, r, r.Rule("ctrl-i-generator", "main's Ctrl+I generator returns Converter.From's payload and error and nothing else"))
	/* A damaged certificate cache is a start-up failure to be reported, not
	a missing cache to be regenerated over (C08's rule, under this
	property's "message naming the cause" clause). */
	if load := p.Func(sstlsPkg, "", "LoadCachedCertificate"); nil != load {
		checkC08Loader(p, r, r.Rule("damaged-cache-reported", "LoadCachedCertificate never reports a damaged cache as fs.ErrNotExist: the caller would take it for a missing one, regenerate silently and start with another key"), load)
	}

	/* 1a. */
	nCalls, nUses := 0, 0
	for _, fn := range p.Funcs() {
		for _, c := range errCalls(fn) {
			nCalls++
			tu := c.Type().(*types.Tuple)
			errV := extractOf(c, tu.Len()-1)
			for k := 0; k < tu.Len()-1; k++ {
				if !nillable(tu.At(k).Type()) {
					/* A struct result: on the failing side its nillable
					fields are nil (a deferred close-on-error, written
					out at the error returns, calls through one). */
					val := extractOf(c, k)
					if _, isSt := tu.At(k).Type().Underlying().(*types.Struct); !isSt || nil == val || nil == errV {
						continue
					}
					tests := nilTestsOf(fn, errV)
					var fieldsOf func(v ssa.Value)
					fieldsOf = func(v ssa.Value) {
						for _, ref := range *v.Referrers() {
							f, ok := ref.(*ssa.Field)
							if !ok || f.X != v {
								continue
							}
							if !nillable(f.Type()) {
								fieldsOf(f)
								continue
							}
							for _, d := range derefUses(f) {
								for _, t := range tests {
									if edgeDominates(t.If, 1-t.NilSucc, d) {
										rUse.Bad(fmt.Sprintf("%s→%s:result#%d-on-error-edge", fnName(fn), calleeName(c.Common()), k), posOf(d), "a field of a result of %s is dereferenced where its error is known to be non-nil: the result is the zero value there and the program panics instead of reporting the failure", calleeName(c.Common()))
									}
								}
							}
						}
					}
					fieldsOf(val)
					for _, ref := range *val.Referrers() {
						ci, ok := ref.(ssa.CallInstruction)
						if !ok {
							continue
						}
						sc := ci.Common().StaticCallee()
						if nil == sc || nil == sc.Signature.Recv() || 0 == len(ci.Common().Args) || ci.Common().Args[0] != val {
							continue
						}
						for _, t := range tests {
							if edgeDominates(t.If, 1-t.NilSucc, ci) {
								rUse.Bad(fmt.Sprintf("%s→%s:result#%d-on-error-edge", fnName(fn), calleeName(c.Common()), k), posOf(ci), "a method (%s) is called on a result of %s where its error is known to be non-nil: the value is the zero value there (nil embedded fields) and the program panics instead of reporting the failure", sc.Name(), calleeName(c.Common()))
							}
						}
					}
					continue
				}
				val := extractOf(c, k)
				if nil == val {
					continue
				}
				var tests []struct {
					If      *ssa.If
					NilSucc int
				}
				if nil != errV {
					tests = nilTestsOf(fn, errV)
				}
				for _, u := range derefUses(val) {
					nUses++
					cons := fmt.Sprintf("%s→%s:result#%d", fnName(fn), calleeName(c.Common()), k)
					ok := false
					for _, t := range tests {
						if edgeDominates(t.If, t.NilSucc, u) {
							ok = true
						}
					}
					if ok {
						rUse.OK(cons, posOf(u), "used below the nil edge of the call's error")
						continue
					}
					if nil == errV {
						rUse.Bad(cons, posOf(u), "result %d of %s is used although the call's error is discarded: on failure this is a nil dereference", k, calleeName(c.Common()))
					} else {
						rUse.Bad(cons, posOf(u), "result %d of %s is dereferenced on a path which has not checked the call's error: when the call fails the program dies with a nil-pointer panic instead of reporting the error", k, calleeName(c.Common()))
					}
				}
			}
		}
	}
	r.Note("use-before-error-check: %d fallible calls, %d dereferencing uses examined", nCalls, nUses)
	if nCalls < 30 {
		rUse.Unproven("module:fallible-calls", token.NoPos, "only %d fallible calls found in the module", nCalls)
	}
	/* 1b. Cells: results and error of one call stored into variables captured by
	closures; uses on the failing side. */
	for _, fn := range p.Funcs() {
		for _, c := range errCalls(fn) {
			tu := c.Type().(*types.Tuple)
			errV := extractOf(c, tu.Len()-1)
			if nil == errV {
				continue
			}
			errCell := cellOf(errV)
			if nil == errCell {
				continue
			}
			for k := 0; k < tu.Len()-1; k++ {
				val := extractOf(c, k)
				if nil == val {
					continue
				}
				valCell := cellOfAny(val)
				if nil == valCell {
					continue
				}
				/* In every function sharing both cells: uses of loads of
				valCell on the non-nil edge of a test of a load of errCell. */
				top := fn
				for nil != top.Parent() {
					top = top.Parent()
				}
				for _, g := range withAnons(top) {
					for _, b := range g.Blocks {
						ifi := blockIf(b)
						if nil == ifi {
							continue
						}
						dc := decodeCond(ifi.Cond)
						if nil == dc.Y || !isNilConst(dc.Y) {
							continue
						}
						l, ok := dc.X.(*ssa.UnOp)
						if !ok || token.MUL != l.Op || resolveFree(l.X) != ssa.Value(errCell) {
							continue
						}
						nonNil := 0
						if dc.Eq {
							nonNil = 1
						}
						eachInstr(g, func(i ssa.Instruction) {
							u, ok := i.(*ssa.UnOp)
							if !ok || token.MUL != u.Op {
								return
							}
							/* Loads of (fields of) the value cell. */
							base := u.X
							for {
								if fa, ok := base.(*ssa.FieldAddr); ok {
									base = fa.X
									continue
								}
								break
							}
							if resolveFree(base) != ssa.Value(valCell) {
								return
							}
							if !nillable(u.Type()) {
								/* A struct result used as a method receiver on the
								failing side: its promoted methods go through
								nil embedded fields. */
								/* Fields of the struct value which are nillable. */
								var fieldsOf func(v ssa.Value)
								fieldsOf = func(v ssa.Value) {
									for _, ref := range *v.Referrers() {
										f, ok := ref.(*ssa.Field)
										if !ok || f.X != v {
											continue
										}
										if nillable(f.Type()) {
											for _, d := range derefUses(f) {
												if edgeDominates(ifi, nonNil, d) {
													rUse.Bad(fmt.Sprintf("%s→%s:result#%d-on-error-edge", fnName(g), calleeName(c.Common()), k), posOf(d), "a field of a result of %s is dereferenced where its error is known to be non-nil: the result is the zero value there and the program panics instead of reporting the failure", calleeName(c.Common()))
												}
											}
										} else {
											fieldsOf(f)
										}
									}
								}
								fieldsOf(u)
								for _, ref := range *u.Referrers() {
									ci, ok := ref.(ssa.CallInstruction)
									if !ok {
										continue
									}
									sc := ci.Common().StaticCallee()
									if nil == sc || nil == sc.Signature.Recv() || 0 == len(ci.Common().Args) || ci.Common().Args[0] != ssa.Value(u) {
										continue
									}
									if edgeDominates(ifi, nonNil, ci) {
										rUse.Bad(fmt.Sprintf("%s→%s:result#%d-on-error-edge", fnName(g), calleeName(c.Common()), k), posOf(ci), "a method (%s) is called on a result of %s where its error is known to be non-nil: the value is the zero value there (nil embedded fields) and the program panics instead of reporting the failure", sc.Name(), calleeName(c.Common()))
									}
								}
								return
							}
							for _, d := range derefUses(u) {
								if edgeDominates(ifi, nonNil, d) {
									rUse.Bad(fmt.Sprintf("%s→%s:result#%d-on-error-edge", fnName(g), calleeName(c.Common()), k), posOf(d), "a result of %s is dereferenced where its error is known to be non-nil: the value is nil/zero there and the program panics instead of reporting the failure", calleeName(c.Common()))
								}
							}
						})
					}
				}
			}
		}
	}

	checkC20Steps(p, r, rStep)
	checkC20Swallow(p, r, rSwal)
	checkC20Restore(p, r, rRest)
}

// cellOf: the Alloc a value is stored into (named result / captured variable).
func cellOf(v ssa.Value) *ssa.Alloc {
	for _, ref := range *v.Referrers() {
		if st, ok := ref.(*ssa.Store); ok && st.Val == v {
			if al, ok := resolveFree(st.Addr).(*ssa.Alloc); ok {
				return al
			}
		}
	}
	return nil
}

// cellOfAny: like cellOf, also through a field of a struct cell.
func cellOfAny(v ssa.Value) *ssa.Alloc {
	if al := cellOf(v); nil != al {
		return al
	}
	for _, ref := range *v.Referrers() {
		if st, ok := ref.(*ssa.Store); ok && st.Val == v {
			base := st.Addr
			for {
				if fa, ok := base.(*ssa.FieldAddr); ok {
					base = fa.X
					continue
				}
				break
			}
			if al, ok := resolveFree(base).(*ssa.Alloc); ok {
				return al
			}
		}
	}
	return nil
}

func isExitCall(c *ssa.CallCommon) bool {
	switch calleeName(c) {
	case "os.Exit", "log.Fatal", "log.Fatalf", "log.Fatalln", "log.Panic", "log.Panicf", "log.Panicln", "runtime.Goexit",
		"(*log.Logger).Fatal", "(*log.Logger).Fatalf", "(*log.Logger).Fatalln", "(*log.Logger).Panic", "(*log.Logger).Panicf", "(*log.Logger).Panicln", "syscall.Exit":
		return true
	}
	return false
}

func isFatalLog(c *ssa.CallCommon) bool {
	n := calleeName(c)
	return strings.HasPrefix(n, "log.Fatal") || strings.HasPrefix(n, "(*log.Logger).Fatal")
}

// reportsErrSync: reportsErr, and the message is written by the call itself.
// A module wrapper which only queues the message on a channel does not put it
// in front of the user before the program exits (rmain's set-up steps run
// before anything drains the output channel).
func reportsErrSync(i ssa.Instruction, errV ssa.Value, known map[*ssa.Function]printfInfo, p *Prog) bool {
	if !reportsErr(i, errV, known, p) {
		return false
	}
	c := callCommon(i)
	if f := c.StaticCallee(); nil != f && inModule(f) && queuesOnly(f, 0) {
		return false
	}
	if f, _ := closureOf(resolveLocalFunc(c.Value)); nil != f && inModule(f) && queuesOnly(f, 0) {
		return false
	}
	return true
}

// reportsErr: the call is a message call which has errV among its arguments.
func reportsErr(i ssa.Instruction, errV ssa.Value, known map[*ssa.Function]printfInfo, p *Prog) bool {
	c := callCommon(i)
	if nil == c {
		return false
	}
	if _, isGo := i.(*ssa.Go); isGo {
		return false
	}
	idx, _ := printfIdxOf(p, known, c)
	switch calleeName(c) {
	case "fmt.Sprintf", "fmt.Sprint", "fmt.Sprintln", "fmt.Errorf", "fmt.Appendf", "fmt.Append", "fmt.Appendln", "errors.New":
		return false /* builds a value; puts nothing in front of the user */
	}
	isSlog := strings.HasPrefix(calleeName(c), "(*log/slog.Logger).")
	if idx < 0 && !isSlog && !strings.HasPrefix(calleeName(c), "log.Print") && !strings.HasPrefix(calleeName(c), "log.Fatal") {
		return false
	}
	for _, e := range append(variadicElems(c), c.Args...) {
		e = stripConv(e, false)
		if e == errV {
			return true
		}
		/* A phi / reload of the same error, or an error made from it
		(fmt.Errorf("opening %s: %w", name, err): its text ends with the
		cause's). */
		if carriesErr(e, errV, 0) {
			return true
		}
	}
	return false
}

func carriesErr(e, errV ssa.Value, depth int) bool {
	if depth > 3 {
		return false
	}
	if e == errV {
		return true
	}
	for _, x := range valueRoots(e, nil) {
		if x.V == errV {
			return true
		}
		c, ok := x.V.(*ssa.Call)
		if !ok || "fmt.Errorf" != calleeName(c.Common()) {
			continue
		}
		for _, a := range variadicElems(c.Common()) {
			if a = stripConv(a, false); typeIsError(a) && carriesErr(a, errV, depth+1) {
				return true
			}
		}
	}
	return false
}

func checkC20Steps(p *Prog, r *Report, ru *Rule) {
	rm := p.Func("", "", "rmain")
	if nil == rm {
		ru.Unproven("main.rmain", token.NoPos, "not found")
		return
	}
	r.Saw("func " + fnName(rm))
	known := findPrintfLike(p)
	steps := map[string]string{ /* callee suffix → what */
		"internal/iobroker.New": "the I/O broker", "os.OpenFile": "the log file", "lib/opshell.New": "the operator shell",
		"internal/hsrv.New": "the HTTPS server", "lib/ezicanhazip.IPv4": "the icanhazip lookup", "io.WriteString": "printing the default template",
	}
	found := map[string]bool{}
	check := func(what string, call *ssa.Call, errV ssa.Value) {
		c := "main.rmain:" + what
		if nil == errV {
			ru.Bad(c, posOf(call), "the error of setting up %s is discarded", what)
			return
		}
		tests := nilTestsOf(rm, errV)
		if 0 == len(tests) {
			ru.Bad(c, posOf(call), "the error of setting up %s is never tested", what)
			return
		}
		for _, t := range tests {
			from := edgeLoc(t.If.Block(), 1-t.NilSucc)
			/* (a) reported before leaving. */
			silent := reachQ{From: from, Block: func(i ssa.Instruction) bool { return reportsErrSync(i, errV, known, p) }, Target: func(i ssa.Instruction) bool {
				if isReturn(i) {
					return true
				}
				cc := callCommon(i)
				return nil != cc && isExitCall(cc) && !reportsErrSync(i, errV, known, p)
			}}.run()
			if nil != silent {
				ru.Bad(c+":reported", posOf(silent), "when setting up %s fails the program can leave without a message naming the cause having been written (a message only queued on the output channel is lost: nothing drains it before exit)", what)
				continue
			}
			/* (b) leaves with failure: no return of 0 and no falling through to the rest of start-up. */
			soft := reachQ{From: from, Block: func(i ssa.Instruction) bool {
				cc := callCommon(i)
				return nil != cc && isFatalLog(cc)
			}, TargetF: func(i ssa.Instruction, facts nilFacts) bool {
				ret, ok := i.(*ssa.Return)
				if !ok {
					return false
				}
				k, isC := retIntOnPath(retVal(ret, 0), facts)
				return !isC || 0 == k
			}}.run()
			if nil != soft {
				ru.Bad(c+":non-zero-exit", posOf(soft), "when setting up %s fails the program can go on or exit with status 0", what)
				continue
			}
			ru.OK(c, posOf(t.If), "reported and fatal")
		}
	}
	for _, f := range []*ssa.Function{rm} {
		for _, call := range errCalls(f) {
			name := calleeName(call.Common())
			for suf, what := range steps {
				if strings.HasSuffix(name, suf) {
					found[suf] = true
					tu := call.Type().(*types.Tuple)
					var errV ssa.Value
					if e := extractOf(call, tu.Len()-1); nil != e {
						errV = e
					}
					check(what, call, errV)
				}
			}
			/* The Ctrl+I generator called directly by rmain (for -print-ctrl-i). */
			isGen := false
			if cf, _ := closureOf(resolveLocalFunc(call.Common().Value)); nil != cf && cf.Parent() == rm {
				isGen = true
			} else if nil == call.Common().StaticCallee() && !call.Common().IsInvoke() {
				/* One of several function literals of the program (a
				constructor of the generator folded into rmain). */
				ls := phiLeaves(call.Common().Value)
				isGen = len(ls) > 0
				for _, l := range ls {
					cf, _ := closureOf(l.V)
					if nil == cf {
						cf, _ = l.V.(*ssa.Function)
					}
					if nil == cf || nil == cf.Parent() || cf.Pkg != rm.Pkg {
						isGen = false
					}
				}
			}
			/* Or the generator's body folded into rmain: what it does is
			Converter.From. */
			if !isGen && strings.HasSuffix(name, "shellfuncsfile.Converter).From") && call.Parent() == rm {
				isGen = true
			}
			if isGen {
				found["insertGen"] = true
				var errV ssa.Value
				if e := extractOf(call, 1); nil != e {
					errV = e
				}
				check("the Ctrl+I payload", call, errV)
			}
		}
	}
	for suf := range steps {
		if !found[suf] {
			ru.Unproven("main.rmain:"+suf, rm.Pos(), "set-up call %s not found in rmain", suf)
		}
	}
	if !found["insertGen"] {
		ru.Unproven("main.rmain:insertGen", rm.Pos(), "direct call of the Ctrl+I generator not found")
	}
}

var untestedOK = func(name string) bool {
	switch {
	case strings.HasSuffix(name, ".Close"), strings.HasSuffix(name, ".Restore"),
		strings.HasPrefix(name, "fmt.Fprint"), strings.HasPrefix(name, "(*strings.Builder)."), strings.HasPrefix(name, "(*bytes.Buffer)."),
		strings.HasPrefix(name, "fmt.Sscan"), strings.HasPrefix(name, "(*text/tabwriter.Writer)."):
		return true
	}
	return false
}

func checkC20Swallow(p *Prog, r *Report, ru *Rule) {
	known := findPrintfLike(p)
	chain := []*ssa.Function{}
	for _, spec := range [][3]string{
		{sstlsPkg, "", "Listen"}, {sstlsPkg, "", "GetCertificate"}, {sstlsPkg, "", "LoadCachedCertificate"}, {sstlsPkg, "", "SaveCertificate"},
		{sstlsPkg, "", "GenerateSelfSignedCertificate"}, {sstlsPkg, "", "generateSelfSignedCert"}, {sstlsPkg, "", "PubkeyFingerprint"}, {sstlsPkg, "", "PubkeyFingerprintTLS"},
		{hsrvPkg, "", "New"}, {hsrvPkg, "Server", "listenAddresses"}, {opsPkg, "", "New"}, {opsPkg, "Shell", "resize"}, {iobPkg, "", "New"},
	} {
		if f := p.Func(spec[0], spec[1], spec[2]); nil != f {
			chain = append(chain, f)
		}
	}
	if len(chain) < 10 {
		ru.Unproven("start-up-chain", token.NoPos, "only %d of the start-up functions found", len(chain))
	}
	for _, fn := range chain {
		r.Saw("func " + fnName(fn))
		/* Does fn return an error? */
		res := fn.Signature.Results()
		errIdx := -1
		if res.Len() > 0 && isErrorType(res.At(res.Len()-1).Type()) {
			errIdx = res.Len() - 1
		}
		bad := 0
		per := map[string]int{}
		eachInstr(fn, func(i ssa.Instruction) {
			call, ok := i.(*ssa.Call)
			if !ok {
				return
			}
			var errV ssa.Value
			name := calleeName(call.Common())
			switch t := call.Type().(type) {
			case *types.Tuple:
				if t.Len() > 0 && isErrorType(t.At(t.Len()-1).Type()) {
					if e := extractOf(call, t.Len()-1); nil != e {
						errV = e
					} else if !untestedOK(name) && !infallibleWrite(call) {
						per[name]++
						bad++
						ru.Bad(fmt.Sprintf("%s→%s#%d:discarded", fnName(fn), name, per[name]), posOf(call), "the error of %s is discarded during start-up", name)
					}
				}
			default:
				if isErrorType(call.Type()) {
					if 0 == len(*call.Referrers()) {
						if !untestedOK(name) && "fmt.Errorf" != name && "errors.New" != name {
							per[name]++
							bad++
							ru.Bad(fmt.Sprintf("%s→%s#%d:discarded", fnName(fn), name, per[name]), posOf(call), "the error of %s is discarded during start-up", name)
						}
						if "fmt.Errorf" == name || "errors.New" == name {
							per[name]++
							bad++
							ru.Bad(fmt.Sprintf("%s→%s#%d:built-and-dropped", fnName(fn), name, per[name]), posOf(call), "an error value is built and then dropped (assigned to a shadowed variable?): the failure it describes is not returned")
						}
						return
					}
					errV = call
				}
			}
			if nil == errV || errIdx < 0 {
				return
			}
			switch name {
			case "net.SplitHostPort", "net/netip.ParsePrefix", "net/netip.ParseAddrPort":
				/* Parse failures used as a classification ("has no port"),
				not as a failure of start-up. */
				return
			}
			/* Whatever the error is taken to mean: what the call handed
			back with it is the zero value, and a success return which
			hands that on makes the caller trust it (a retry loop which
			gives up and falls through to "return l, nil"). */
			if tu, isTu := call.Type().(*types.Tuple); isTu && tu.Len() >= 2 {
				for _, t := range nilTestsOf(fn, errV) {
					from := edgeLoc(t.If.Block(), 1-t.NilSucc)
					stale := reachQ{From: from, Block: func(j ssa.Instruction) bool { return j == ssa.Instruction(call) }, TargetF: func(j ssa.Instruction, facts nilFacts) bool {
						ret, ok := j.(*ssa.Return)
						if !ok || errIdx >= len(ret.Results) {
							return false
						}
						rv := retVal(ret, errIdx)
						if !isNilConst(rv) && 1 != nilnessOf(rv, facts) {
							return false
						}
						for k := 0; k < len(ret.Results); k++ {
							if k == errIdx {
								continue
							}
							for _, x := range valueRoots(retVal(ret, k), nil) {
								if "call" == x.Kind && x.V == ssa.Value(call) && x.Idx != tu.Len()-1 {
									return true
								}
							}
						}
						return false
					}}.run()
					if nil != stale {
						per[name]++
						bad++
						ru.Bad(fmt.Sprintf("%s→%s#%d:failed-result-returned", fnName(fn), name, per[name]), posOf(stale), "after %s failed (and was not called again), %s can return what that call handed back — the zero value — together with a nil error: the caller trusts it and the program crashes instead of reporting the failure", name, fnName(fn))
					}
				}
			}
			for _, t := range nilTestsOf(fn, errV) {
				from := edgeLoc(t.If.Block(), 1-t.NilSucc)
				hit := reachQ{From: from, Block: func(j ssa.Instruction) bool {
					if reportsErr(j, errV, known, p) {
						return true
					}
					/* A typed classification of this very error (errors.Is /
					os.IsNotExist) is a deliberate decision, not a swallow. */
					if ifi, ok := j.(*ssa.If); ok {
						if cc, ok := decodeCond(ifi.Cond).X.(*ssa.Call); ok {
							n := calleeName(cc.Common())
							if "errors.Is" == n || "os.IsNotExist" == n || "errors.As" == n {
								if cc.Common().Args[0] == errV {
									return true
								}
								/* Or of a wrapping of it. */
								for _, src := range errorSources(cc.Common().Args[0], 0) {
									if nil != src.Call && ssa.Value(src.Call) == ssa.Value(call) {
										return true
									}
								}
							}
						}
					}
					return false
				}, Target: func(j ssa.Instruction) bool {
					ret, ok := j.(*ssa.Return)
					if !ok {
						return false
					}
					rv := retVal(ret, errIdx)
					if isNilConst(rv) {
						return true
					}
					/* A value known to be nil here: another error whose nil edge dominates this return. */
					if rv != errV {
						for _, t2 := range nilTestsOf(fn, rv) {
							if edgeDominates(t2.If, t2.NilSucc, ret) {
								return true
							}
						}
					}
					return false
				}}.run()
				if nil != hit {
					/* errors.Is-style classification (e.g. not-exist falls through to generation) is legitimate when the non-nil edge is further split by errors.Is on this error. */
					if classified(fn, errV, hit) {
						continue
					}
					per[name]++
					bad++
					ru.Bad(fmt.Sprintf("%s→%s#%d:swallowed", fnName(fn), name, per[name]), posOf(hit), "after %s failed, %s can still return success (nil error) without having reported the failure", name, fnName(fn))
				}
			}
		})
		if 0 == bad {
			ru.OK(fnName(fn), fn.Pos(), "every tested error is returned or reported; untested ones are allow-listed")
		}
	}
}

// classified: the success return is reached through an errors.Is / os.IsNotExist
// test of this very error (a deliberate, typed exception).
func classified(fn *ssa.Function, errV ssa.Value, ret ssa.Instruction) bool {
	wraps := func(v ssa.Value) bool {
		if v == errV {
			return true
		}
		var origin *ssa.Call
		switch x := errV.(type) {
		case *ssa.Call:
			origin = x
		case *ssa.Extract:
			origin, _ = x.Tuple.(*ssa.Call)
		}
		if nil == origin {
			return false
		}
		for _, src := range errorSources(v, 0) {
			if src.Call == origin {
				return true
			}
		}
		return false
	}
	for _, b := range fn.Blocks {
		ifi := blockIf(b)
		if nil == ifi {
			continue
		}
		c, ok := decodeCond(ifi.Cond).X.(*ssa.Call)
		if !ok {
			continue
		}
		n := calleeName(c.Common())
		if ("errors.Is" == n || "os.IsNotExist" == n || "errors.As" == n) && wraps(c.Common().Args[0]) {
			if edgeDominates(ifi, 0, ret) || edgeDominates(ifi, 1, ret) {
				return true
			}
		}
	}
	return false
}

func checkC20Restore(p *Prog, r *Report, ru *Rule) {
	rm := p.Func("", "", "rmain")
	onew := p.Func(opsPkg, "", "New")
	if nil == rm || nil == onew {
		ru.Unproven("rmain/opshell.New", token.NoPos, "not found")
		return
	}
	/* (a) who may exit. */
	nExit := 0
	for _, fn := range p.Funcs() {
		top := fn
		for nil != top.Parent() {
			top = top.Parent()
		}
		isMainPkg := nil != top.Pkg && "main" == top.Pkg.Pkg.Name()
		for _, b := range fn.Blocks {
			for _, i := range b.Instrs {
				if _, isPanic := i.(*ssa.Panic); isPanic {
					if ssa.IsUnreachableMarker(i) {
						continue
					}
					if "yield-invalid" == b.Comment || strings.HasPrefix(b.Comment, "rangefunc.") || strings.HasPrefix(b.Comment, "select.next") {
						continue
					}
					/* Blocking-select fall-through panics are compiler generated. */
					if mi, ok := i.(*ssa.Panic).X.(*ssa.MakeInterface); ok {
						if s, ok := constString(mi.X); ok && strings.HasPrefix(s, "blocking select") {
							continue
						}
					}
					/* The default arm of a switch which has a case for
					every constant the module declares of the value's
					(module) type: reached by no value the program has. */
					if exhaustiveDefault(p, fn, i) {
						continue
					}
					nExit++
					ru.Bad(fnName(fn)+":panic", posOf(i), "explicit panic in the program: the terminal is left in raw mode and a stack trace is shown")
					continue
				}
				c := callCommon(i)
				if nil == c || !isExitCall(c) {
					continue
				}
				nExit++
				cons := fmt.Sprintf("%s→%s", fnName(fn), calleeName(c))
				switch {
				case !isMainPkg:
					ru.Bad(cons, posOf(i), "%s in a library function: the process ends without running the deferred terminal restoration", calleeName(c))
				case top == rm || "main" == top.Name() || strings.HasSuffix(renameImage[top], ".rmain") || "rmain" == top.Name():
					ru.OK(cons, posOf(i), "in package main")
				default:
					ru.Bad(cons, posOf(i), "%s outside main/rmain", calleeName(c))
				}
			}
		}
	}
	/* (b) rmain: cleanup deferred first; no exit after it. */
	var newCall *ssa.Call
	eachInstr(rm, func(i ssa.Instruction) {
		if c, ok := i.(*ssa.Call); ok && c.Common().StaticCallee() == onew {
			newCall = c
		}
	})
	if nil == newCall {
		ru.Unproven("main.rmain→opshell.New", rm.Pos(), "call not found")
		return
	}
	cleanupV := extractOf(newCall, 1)
	errV := extractOf(newCall, 2)
	var def *ssa.Defer
	eachInstr(rm, func(i ssa.Instruction) {
		if d, ok := i.(*ssa.Defer); ok && nil != cleanupV && d.Common().Value == ssa.Value(cleanupV) {
			def = d
		}
		/* Or a deferred literal which calls it on every way through
		(and then, say, tells the user if the restore failed). */
		if d, ok := i.(*ssa.Defer); ok && nil != cleanupV && nil == def {
			if lit, _ := closureOf(d.Common().Value); nil != lit && lit.Parent() == rm && nil != lit.Blocks {
				calls := func(j ssa.Instruction) bool {
					cc := callCommon(j)
					if nil == cc || cc.IsInvoke() || nil != cc.StaticCallee() {
						return false
					}
					if _, isGo := j.(*ssa.Go); isGo {
						return false
					}
					return resolveCell(resolveFree(stripConv(resolveCell(cc.Value), false))) == ssa.Value(cleanupV)
				}
				if nil == (reachQ{From: entryLoc(lit), Target: isReturn, Block: calls}).run() {
					def = d
				}
			}
		}
	})
	switch {
	case nil == cleanupV || nil == def:
		ru.Bad("main.rmain:defer-cleanup", posOf(newCall), "the cleanup function returned by opshell.New is not deferred: the terminal stays in raw mode after exit")
	case nil == errV:
		ru.Bad("main.rmain:defer-cleanup", posOf(newCall), "opshell.New's error is discarded")
	default:
		okk := true
		for _, t := range nilTestsOf(rm, errV) {
			from := edgeLoc(t.If.Block(), t.NilSucc)
			miss := reachQ{From: from, Block: func(i ssa.Instruction) bool { return i == ssa.Instruction(def) }, Target: func(i ssa.Instruction) bool {
				if isReturn(i) {
					return true
				}
				c := callCommon(i)
				return nil != c && isExitCall(c)
			}}.run()
			if nil != miss {
				okk = false
				ru.Bad("main.rmain:defer-cleanup-first", posOf(miss), "after the terminal was put in raw mode a path leaves rmain before the cleanup is deferred")
			}
		}
		if okk {
			ru.OK("main.rmain:defer-cleanup-first", posOf(def), "defer cleanup() is registered before anything can leave")
		}
		/* No exit call reachable after the defer. */
		hit := reachQ{From: locOf(def), Target: func(i ssa.Instruction) bool {
			c := callCommon(i)
			return nil != c && isExitCall(c)
		}}.run()
		if nil != hit {
			ru.Bad("main.rmain:no-exit-after-raw-mode", posOf(hit), "%s is reachable after the terminal was put in raw mode: it ends the process without running the deferred restoration", calleeName(callCommon(hit)))
		} else {
			ru.OK("main.rmain:no-exit-after-raw-mode", posOf(def), "every exit after raw mode is a return, so the deferred cleanup runs")
		}
	}
	/* main = os.Exit(rmain()). */
	if mf := p.Func("", "", "main"); nil != mf {
		okk := false
		eachInstr(mf, func(i ssa.Instruction) {
			if c := callCommon(i); nil != c && "os.Exit" == calleeName(c) {
				if rc, ok := stripConv(c.Args[0], true).(*ssa.Call); ok && rc.Common().StaticCallee() == rm {
					okk = true
				}
			}
		})
		if okk {
			ru.OK("main.main", mf.Pos(), "os.Exit(rmain())")
		} else {
			ru.Bad("main.main", mf.Pos(), "main does not exit with rmain's status")
		}
	}
	/* (c) opshell.New's own error paths. */
	var open *ssa.Call
	var cleanupLocal ssa.Value
	var makeRaw *ssa.Call
	eachInstr(onew, func(i ssa.Instruction) {
		c, ok := i.(*ssa.Call)
		if !ok {
			return
		}
		switch calleeName(c.Common()) {
		case "os.Open", "os.OpenFile":
			open = c
		case "sync.OnceFunc":
			cleanupLocal = c
		case "github.com/magisterquis/goxterm.MakeRaw":
			makeRaw = c
		}
	})
	/* The cleanup function is what New hands its caller on success, however
	it is made (sync.OnceFunc, a literal around a sync.Once, ...). */
	if nil == cleanupLocal {
		eachInstr(onew, func(i ssa.Instruction) {
			ret, ok := i.(*ssa.Return)
			if !ok || 3 != len(ret.Results) || !isNilConst(retVal(ret, 2)) {
				return
			}
			v := stripConv(resolveCell(stripConv(retVal(ret, 1), false)), false)
			if _, isFn := v.Type().Underlying().(*types.Signature); isFn {
				if _, isInstr := v.(ssa.Instruction); isInstr {
					cleanupLocal = v
				}
			}
		})
	}
	if nil == open || nil == cleanupLocal || nil == makeRaw {
		ru.Unproven(fnName(onew)+":anchors", onew.Pos(), "TTY open, cleanup function or MakeRaw not found in opshell.New")
		return
	}
	r.Saw("func " + fnName(onew))
	/* The cleanup as a method of a type of its own (a restorer struct with
	a sync.Once inside): calls of the method are calls of the cleanup, and
	what it does is looked for in the method. */
	var cleanMethod *ssa.Function
	if cf, _ := closureOf(cleanupLocal); nil != cf {
		if m := unbound(p, cf); m != cf && nil != m.Blocks {
			cleanMethod = m
		}
	}
	cleanScope := withAnons(onew)
	if nil != cleanMethod {
		cleanScope = append(cleanScope, withAnons(cleanMethod)...)
	}
	/* Returned cleanup is that function. */
	eachInstr(onew, func(i ssa.Instruction) {
		ret, ok := i.(*ssa.Return)
		if !ok || 3 != len(ret.Results) || !isNilConst(retVal(ret, 2)) {
			return
		}
		if stripConv(resolveCell(stripConv(retVal(ret, 1), false)), false) == cleanupLocal {
			ru.OK(fnName(onew)+":returns-cleanup", posOf(ret), "the caller receives the cleanup function")
		} else {
			ru.Bad(fnName(onew)+":returns-cleanup", posOf(ret), "on success New does not return its cleanup function")
		}
	})
	/* Error returns after the cleanup exists call it. */
	miss := reachQ{From: locOf(cleanupLocal.(ssa.Instruction)), Block: func(i ssa.Instruction) bool {
		c := callCommon(i)
		if nil != c && nil != cleanMethod && c.StaticCallee() == cleanMethod {
			return true
		}
		return nil != c && stripConv(resolveCell(c.Value), false) == cleanupLocal
	}, Target: func(i ssa.Instruction) bool {
		ret, ok := i.(*ssa.Return)
		return ok && 3 == len(ret.Results) && !isNilConst(retVal(ret, 2))
	}}.run()
	if nil != miss && flagGuardedCleanup(onew, cleanupLocal) {
		ru.OK(fnName(onew)+":error-paths-clean-up", posOf(open), "a deferred function runs the cleanup unless a flag was set, and the flag is set only on the way to the successful return")
	} else if nil != miss {
		ru.Bad(fnName(onew)+":error-paths-clean-up", posOf(miss), "an error return of opshell.New after the TTY was opened does not call the cleanup: the TTY stays open (and possibly raw)")
	} else {
		ru.OK(fnName(onew)+":error-paths-clean-up", posOf(open), "every error return after the TTY was opened runs the cleanup")
	}
	/* Restore gets MakeRaw's state for the same descriptor. */
	stateCell := cellOf(valueOrExtract(makeRaw, 0))
	okRestore := false
	for _, f := range cleanScope {
		eachInstr(f, func(i ssa.Instruction) {
			c := callCommon(i)
			if nil == c || "github.com/magisterquis/goxterm.Restore" != calleeName(c) {
				return
			}
			st, ok := c.Args[1].(*ssa.UnOp)
			/* The state kept in a field of the restorer: every store to
			that field is MakeRaw's state. */
			viaField := false
			if fv, _ := loadedField(c.Args[1]); nil != fv {
				sts := p.storesToField(fv)
				viaField = 0 != len(sts)
				for _, fs := range sts {
					if isNilConst(fs.Val) {
						continue
					}
					if resolveCell(fs.Val) != valueOrExtract(makeRaw, 0) && fs.Val != valueOrExtract(makeRaw, 0) {
						viaField = false
					}
				}
			}
			if "" != os.Getenv("CRS_C20DEBUG") {
				fmt.Fprintf(os.Stderr, "C20DEBUG restore in %s viaField=%v fd=%v\n", fnName(f), viaField, sameFdSource(c.Args[0], makeRaw.Common().Args[0]))
			}
			if viaField || (ok && nil != stateCell && resolveFree(st.X) == ssa.Value(stateCell)) || resolveCell(c.Args[1]) == valueOrExtract(makeRaw, 0) {
				/* Same fd expression: s.ttyF.Fd() in both. */
				if sameFdSource(c.Args[0], makeRaw.Common().Args[0]) {
					okRestore = true
				}
			}
		})
	}
	/* The descriptor stays valid for as long as it is used: the *os.File is
	kept (in the shell, or by the cleanup) — an os.File nothing refers to
	is closed by its finalizer at the next garbage collection, and
	Restore, GetSize and the terminal library then work on a closed (or
	re-used) descriptor number. */
	{
		fileV := valueOrExtract(open, 0)
		kept := false
		seen := map[ssa.Value]bool{}
		var follow func(v ssa.Value, depth int)
		follow = func(v ssa.Value, depth int) {
			if nil == v || seen[v] || depth > 6 || nil == v.Referrers() {
				return
			}
			seen[v] = true
			for _, ref := range *v.Referrers() {
				switch x := ref.(type) {
				case *ssa.Store:
					if x.Val != v {
						continue
					}
					if _, isFA := x.Addr.(*ssa.FieldAddr); isFA {
						kept = true
					} else if al, isAl := resolveFree(x.Addr).(*ssa.Alloc); isAl {
						/* A local cell: kept if a closure which outlives New
						captures it, or if what is loaded from it is kept. */
						for _, r2 := range *al.Referrers() {
							switch y := r2.(type) {
							case *ssa.MakeClosure:
								kept = true
							case *ssa.UnOp:
								follow(y, depth+1)
							}
						}
					}
				case *ssa.MakeClosure:
					kept = true
				case *ssa.Phi, *ssa.MakeInterface, *ssa.ChangeType:
					follow(x.(ssa.Value), depth+1)
				}
			}
		}
		follow(fileV, 0)
		if kept {
			ru.OK(fnName(onew)+":tty-file-kept", posOf(open), "the opened TTY's *os.File is kept beyond New")
		} else {
			ru.Bad(fnName(onew)+":tty-file-kept", posOf(open), "nothing keeps the *os.File of the TTY once New has returned (only its descriptor number is kept): the garbage collector's finalizer closes it, and restoring the terminal at exit then fails silently")
		}
	}
	/* Modes switched on through the terminal library while setting up (a
	Set…Mode(true) which writes an escape sequence: bracketed paste) are
	terminal state as much as termios is: the cleanup switches them off. */
	{
		var cleanFn *ssa.Function
		if oc, isCall := cleanupLocal.(*ssa.Call); isCall && 0 != len(oc.Common().Args) {
			cleanFn, _ = closureOf(oc.Common().Args[0])
		} else {
			cleanFn, _ = closureOf(cleanupLocal)
		}
		if nil != cleanMethod {
			cleanFn = cleanMethod
		}
		modeCall := func(i ssa.Instruction) (string, bool, bool) {
			c := callCommon(i)
			if nil == c || nil == c.StaticCallee() || "Terminal" != recvTypeName(c.StaticCallee()) || !strings.HasPrefix(c.StaticCallee().Name(), "Set") || !strings.HasSuffix(c.StaticCallee().Name(), "Mode") || 2 != len(c.Args) {
				return "", false, false
			}
			b, isC := constBool(c.Args[1])
			return c.StaticCallee().Name(), b, isC
		}
		for _, f := range withAnons(onew) {
			if nil != cleanFn && (f == cleanFn || f.Parent() == cleanFn) {
				continue
			}
			eachInstr(f, func(i ssa.Instruction) {
				name, on, isC := modeCall(i)
				if "" == name || !isC || !on {
					return
				}
				undone := false
				if nil != cleanFn {
					for _, cf := range withAnons(cleanFn) {
						eachInstr(cf, func(j ssa.Instruction) {
							if n2, on2, c2 := modeCall(j); n2 == name && c2 && !on2 {
								undone = true
							}
						})
					}
				}
				if undone {
					ru.OK(fnName(onew)+":"+name, posOf(i), "switched off again by the cleanup")
				} else {
					ru.Bad(fnName(onew)+":"+name, posOf(i), "opshell.New switches a terminal mode on with %s(true) and the cleanup it returns does not switch it off: an exit before (or without) whoever else undoes it leaves the terminal in that mode", name)
				}
			})
		}
	}
	/* What is restored is the mode the terminal was found in: the place the
	cleanup reads the saved state from is written by New alone. */
	var savedField *types.Var
	var savedCell ssa.Value
	for _, f := range cleanScope {
		eachInstr(f, func(i ssa.Instruction) {
			c := callCommon(i)
			if nil == c || "github.com/magisterquis/goxterm.Restore" != calleeName(c) || 2 != len(c.Args) {
				return
			}
			if fv, _ := loadedField(c.Args[1]); nil != fv {
				savedField = fv
			} else if u, ok := c.Args[1].(*ssa.UnOp); ok && token.MUL == u.Op {
				savedCell = resolveFree(u.X)
			}
		})
	}
	if nil != savedField || nil != savedCell {
		var later ssa.Instruction
		for _, f := range p.Funcs() {
			if f == onew {
				continue
			}
			eachInstr(f, func(i ssa.Instruction) {
				st, ok := i.(*ssa.Store)
				if !ok || nil != later || isNilConst(st.Val) {
					return
				}
				if nil != savedField {
					if fv, _ := fieldAddrOf(st.Addr); fv == savedField {
						later = i
					}
				} else if resolveFree(st.Addr) == savedCell {
					later = i
				}
			})
		}
		if nil != later {
			ru.Bad(fnName(onew)+":saved-state-taken-once", posOf(later), "the terminal state the cleanup restores is overwritten outside opshell.New ("+fnName(later.Parent())+"): what is restored is no longer the mode the terminal was found in")
		} else {
			ru.OK(fnName(onew)+":saved-state-taken-once", posOf(makeRaw), "the saved terminal state is written by opshell.New only")
		}
	}
	if okRestore {
		ru.OK(fnName(onew)+":restore-state", posOf(makeRaw), "cleanup restores the state MakeRaw returned, on the same descriptor")
	} else {
		ru.Bad(fnName(onew)+":restore-state", posOf(makeRaw), "the cleanup does not restore the state returned by MakeRaw for the same descriptor")
	}
	_ = nExit
}

func valueOrExtract(c *ssa.Call, idx int) ssa.Value {
	if e := extractOf(c, idx); nil != e {
		return e
	}
	return c
}

// sameFdSource: both values are int(x.Fd()) of the same file field.
func sameFdSource(a, b ssa.Value) bool {
	f := func(v ssa.Value) any {
		for _, x := range valueRoots(v, func(n string) bool { return "(*os.File).Fd" == n }) {
			switch x.Kind {
			case "field":
				return x.Field
			case "call":
				/* The file itself, kept in a local variable. */
				return resolveCell(x.V)
			}
		}
		return nil
	}
	fa, fb := f(a), f(b)
	if nil != fa && fa == fb {
		return true
	}
	/* Two fields, one of which only ever holds the other (the restorer's
	copy of the shell's TTY). */
	va, okA := fa.(*types.Var)
	vb, okB := fb.(*types.Var)
	if !okA || !okB || nil == theProg {
		return false
	}
	holds := func(x, y *types.Var) bool {
		sts := theProg.storesToField(x)
		if 0 == len(sts) {
			return false
		}
		for _, st := range sts {
			if fv, _ := loadedField(stripConv(st.Val, false)); fv == y {
				continue
			}
			if fv, _ := loadedField(stripConv(resolveCell(st.Val), false)); fv != y {
				return false
			}
		}
		return true
	}
	return holds(va, vb) || holds(vb, va)
}

// queuesOnly: the message function sends on a channel and never writes
// (directly or through module callees) to a terminal, stderr or a logger.
func queuesOnly(f *ssa.Function, depth int) bool {
	if depth > 3 || nil == f.Blocks {
		return false
	}
	sends, writes := false, false
	eachInstr(f, func(i ssa.Instruction) {
		switch x := i.(type) {
		case *ssa.Send:
			sends = true
		case *ssa.Select:
			for _, st := range x.States {
				if types.SendOnly == st.Dir {
					sends = true
				}
			}
		case *ssa.Call:
			n := calleeName(x.Common())
			switch {
			case strings.HasPrefix(n, "log."), strings.HasPrefix(n, "(*log.Logger)."), strings.HasPrefix(n, "fmt.Fprint"), strings.HasPrefix(n, "fmt.Print"),
				strings.HasPrefix(n, "io.WriteString"), strings.HasSuffix(n, ".Write"), strings.HasSuffix(n, ".WriteTo"), strings.HasSuffix(n, ".WriteString"):
				writes = true
			}
			if sc := x.Common().StaticCallee(); nil != sc && inModule(sc) && sc != f {
				if !queuesOnly(sc, depth+1) && hasOutput(sc, depth+1) {
					writes = true
				}
				if queuesOnly(sc, depth+1) {
					sends = true
				}
			}
		}
	})
	return sends && !writes
}

func hasOutput(f *ssa.Function, depth int) bool {
	if depth > 3 || nil == f.Blocks {
		return false
	}
	out := false
	eachInstr(f, func(i ssa.Instruction) {
		if c, ok := i.(*ssa.Call); ok {
			n := calleeName(c.Common())
			switch {
			case strings.HasPrefix(n, "log."), strings.HasPrefix(n, "fmt.Fprint"), strings.HasPrefix(n, "fmt.Print"), strings.HasPrefix(n, "io.WriteString"),
				strings.HasSuffix(n, ".Write"), strings.HasSuffix(n, ".WriteTo"), strings.HasSuffix(n, ".WriteString"):
				out = true
			}
			if sc := c.Common().StaticCallee(); nil != sc && inModule(sc) && sc != f && hasOutput(sc, depth+1) {
				out = true
			}
		}
	})
	return out
}

// infallibleWrite: Write on a hash.Hash, which is documented never to return
// an error.
func infallibleWrite(call *ssa.Call) bool {
	c := call.Common()
	if !c.IsInvoke() || "Write" != c.Method.Name() {
		return false
	}
	return typeIs(c.Value.Type(), "hash", "Hash") || typeIs(c.Value.Type(), "hash", "Hash32") || typeIs(c.Value.Type(), "hash", "Hash64")
}

// flagGuardedCleanup recognises
//
//	done := false
//	defer func() { if !done { cleanup() } }()
//	... error returns ...
//	done = true
//	return ..., nil
//
// in fn: the deferred function literal is registered right after the cleanup
// exists (it dominates every later return), it calls cleanup on the edge where
// the flag is false, every error return observes only false stores of the
// flag and every successful return only true ones.
func flagGuardedCleanup(fn *ssa.Function, cleanup ssa.Value) bool {
	return flagGuardedBy(fn, func(i ssa.Instruction) bool {
		c := callCommon(i)
		return nil != c && resolveCell(c.Value) == cleanup
	}, cleanup.(ssa.Instruction))
}

// flagGuardedBy: a deferred function literal of fn does the cleanup (calls
// satisfying isCleanupCall) unless a local flag is set, and the flag is set
// only on the way to a successful return; returns made before `since` (when
// there is nothing to clean up yet) do not count.
func flagGuardedBy(fn *ssa.Function, isCleanupCall func(ssa.Instruction) bool, since ssa.Instruction) bool {
	ok := false
	eachInstr(fn, func(i ssa.Instruction) {
		d, isDefer := i.(*ssa.Defer)
		if !isDefer {
			return
		}
		lit, _ := closureOf(d.Common().Value)
		if nil == lit || lit.Parent() != fn {
			return
		}
		/* In the literal: a test of a captured boolean cell whose false
		edge leads to the cleanup call, which is reachable no other way. */
		var flag *ssa.Alloc
		for _, b := range lit.Blocks {
			ifi := blockIf(b)
			if nil == ifi {
				continue
			}
			dc := decodeCond(ifi.Cond)
			if nil != dc.Y {
				continue
			}
			ld, isLd := dc.X.(*ssa.UnOp)
			if !isLd || token.MUL != ld.Op {
				continue
			}
			cell, isCell := resolveFree(ld.X).(*ssa.Alloc)
			if !isCell || cell.Parent() != fn {
				continue
			}
			falseSucc := 1
			if !dc.Eq {
				falseSucc = 0
			}
			/* Cleanup on every path from the false edge; none from the true edge. */
			missing := reachQ{From: edgeLoc(b, falseSucc), Target: isReturn, Block: isCleanupCall}.run()
			extra := reachQ{From: edgeLoc(b, 1-falseSucc), Target: isCleanupCall}.run()
			if nil == missing && nil == extra {
				flag = cell
			}
		}
		if nil == flag {
			return
		}
		/* Returns. */
		good := true
		nerr, nok := 0, 0
		eachInstr(fn, func(j ssa.Instruction) {
			ret, isRet := j.(*ssa.Return)
			if !isRet || (nil != fn.Recover && j.Block() == fn.Recover) {
				return
			}
			from := since
			if nil == from {
				from = d /* what returned before the defer is not its business */
			}
			if !canReach(locOf(from), j) {
				return /* before there is anything to clean up */
			}
			if !instrDominates(d, j) {
				good = false
				return
			}
			errV := retVal(ret, len(ret.Results)-1)
			/* Which stores of the flag can this return observe? */
			var sts []*ssa.Store
			for _, st := range reachingStoresAt(j, flag) {
				/* (a store this return cannot come after does not
				reach it: "ok = true" just before the success return) */
				if st.Parent() != fn || canReach(locOf(st), j) {
					sts = append(sts, st)
				}
			}
			for _, leaf := range phiLeaves(errV) {
				isErr := !isNilConst(leaf.V)
				for _, st := range sts {
					b, isC := constBool(st.Val)
					if !isC {
						good = false
						continue
					}
					/* Stores seen on the way to this very leaf. */
					if nil != leaf.From && !canReach(locOf(st), leaf.From.Instrs[len(leaf.From.Instrs)-1]) && st.Block() != leaf.From {
						continue
					}
					if isErr && b {
						good = false
					}
				}
				if isErr {
					nerr++
				} else {
					nok++
				}
			}
		})
		if good && nerr > 0 {
			ok = true
		}
		_ = nok
	})
	return ok
}

// exhaustiveDefault: the instruction at stands below the "equals none of
// them" edges of comparisons of one value, of a named type of the module,
// with constants, and those constants are all the package-level constants the
// module declares of that type (at least two): the default arm of an
// exhaustive switch over an enumeration.
func exhaustiveDefault(p *Prog, fn *ssa.Function, at ssa.Instruction) bool {
	tested := map[ssa.Value]map[string]bool{}
	for _, b := range fn.Blocks {
		ifi := blockIf(b)
		if nil == ifi {
			continue
		}
		dc := decodeCond(ifi.Cond)
		if nil == dc.Y {
			continue
		}
		v, c := dc.X, dc.Y
		if _, isC := v.(*ssa.Const); isC {
			v, c = c, v
		}
		cc, isC := c.(*ssa.Const)
		if !isC || nil == cc.Value {
			continue
		}
		n, isNamed := v.Type().(*types.Named)
		if !isNamed || nil == n.Obj().Pkg() || !strings.HasPrefix(n.Obj().Pkg().Path(), ModPath) {
			continue
		}
		ne := 1 /* the edge on which v differs from the constant */
		if !dc.Eq {
			ne = 0
		}
		if !edgeDominates(ifi, ne, at) {
			continue
		}
		if nil == tested[v] {
			tested[v] = map[string]bool{}
		}
		tested[v][cc.Value.ExactString()] = true
	}
	for v, seen := range tested {
		n := v.Type().(*types.Named)
		var declared []string
		for _, pk := range p.Pkgs {
			sc := pk.Types.Scope()
			for _, name := range sc.Names() {
				if k, ok := sc.Lookup(name).(*types.Const); ok && types.Identical(k.Type(), n) {
					declared = append(declared, k.Val().ExactString())
				}
			}
		}
		if len(declared) < 2 {
			continue
		}
		all := true
		for _, d := range declared {
			if !seen[d] {
				all = false
			}
		}
		if all {
			return true
		}
	}
	return false
}
