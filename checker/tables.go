package main

// tables.go: fixed tables — an array or slice literal, local or in a
// package-level variable which nothing writes after its initialisation — and
// reads of their cells at a loop's index.  "for _, row := range table { f(row.a,
// row.b) }" is then f(a0, b0); f(a1, b1); … for the rules.

import (
	"go/token"
	"go/types"
	"strings"

	"golang.org/x/tools/go/ssa"
)

// cellRead describes v as the read of a cell of a table.
type cellRead struct {
	Container ssa.Value /* what is indexed: an array's address, a slice */
	Index     ssa.Value
	Field     int /* -1: the whole row */
}

// cellReadOf recognises Field(load(&c[i]), f), load(&(&c[i]).f), load(&c[i])
// and the same through a per-iteration copy of the row.
func cellReadOf(v ssa.Value) (cellRead, bool) {
	v = stripConv(resolveCell(stripConv(v, false)), false)
	fromIA := func(a ssa.Value) (*ssa.IndexAddr, bool) {
		if ia, ok := a.(*ssa.IndexAddr); ok {
			return ia, true
		}
		/* A copy of the row in a local variable. */
		if al, ok := a.(*ssa.Alloc); ok {
			if sts := storesTo(al); 1 == len(sts) {
				if ld, ok := sts[0].Val.(*ssa.UnOp); ok && token.MUL == ld.Op {
					if ia, ok := ld.X.(*ssa.IndexAddr); ok {
						return ia, true
					}
				}
			}
		}
		return nil, false
	}
	switch x := v.(type) {
	case *ssa.Parameter:
		/* The element handed to the body of "for _, e := range
		slices.Values(tbl)" (or slices.All). */
		if tbl, _, ok := rofElemOf(x); ok {
			return cellRead{tbl, allRows, -1}, true
		}
	case *ssa.Index:
		/* An element of an array value (a copy of the table). */
		return cellRead{x.X, x.Index, -1}, true
	case *ssa.Field:
		if pa, ok := x.X.(*ssa.Parameter); ok {
			if tbl, _, ok := rofElemOf(pa); ok {
				return cellRead{tbl, allRows, x.Field}, true
			}
		}
		if ix, ok := x.X.(*ssa.Index); ok {
			return cellRead{ix.X, ix.Index, x.Field}, true
		}
		if ld, ok := x.X.(*ssa.UnOp); ok && token.MUL == ld.Op {
			if ia, ok := fromIA(ld.X); ok {
				return cellRead{ia.X, ia.Index, x.Field}, true
			}
		}
	case *ssa.UnOp:
		if token.MUL != x.Op {
			return cellRead{}, false
		}
		if fa, ok := x.X.(*ssa.FieldAddr); ok {
			if ia, ok := fromIA(fa.X); ok {
				return cellRead{ia.X, ia.Index, fa.Field}, true
			}
		}
		if ia, ok := x.X.(*ssa.IndexAddr); ok {
			return cellRead{ia.X, ia.Index, -1}, true
		}
	}
	return cellRead{}, false
}

// fixedTable is the content of a table: per row, per field (-1 for a row
// stored whole), the value stored.
type fixedTable struct {
	N     int64
	Cells map[int64]map[int]ssa.Value
}

// Column returns field f of every row, in order.
func (t *fixedTable) Column(f int) ([]ssa.Value, bool) {
	out := make([]ssa.Value, t.N)
	for k := int64(0); k < t.N; k++ {
		v, ok := t.Cells[k][f]
		if !ok {
			/* The row was stored whole: a struct assembled in a local
			variable field by field. */
			whole, isWhole := t.Cells[k][-1]
			if !isWhole || f < 0 {
				return nil, false
			}
			v, ok = fieldOfAssembled(whole, f)
			if !ok {
				return nil, false
			}
		}
		out[k] = v
	}
	return out, true
}

// fieldOfAssembled: whole is the load of a local struct variable written only
// field by field; returns what was stored into field f.
func fieldOfAssembled(whole ssa.Value, f int) (ssa.Value, bool) {
	ld, ok := whole.(*ssa.UnOp)
	if !ok || token.MUL != ld.Op {
		return nil, false
	}
	tmp, ok := ld.X.(*ssa.Alloc)
	if !ok {
		return nil, false
	}
	var out ssa.Value
	n := 0
	for _, ref := range *tmp.Referrers() {
		switch x := ref.(type) {
		case *ssa.FieldAddr:
			for _, r2 := range *x.Referrers() {
				if st, isSt := r2.(*ssa.Store); isSt && st.Addr == ssa.Value(x) && x.Field == f {
					out = st.Val
					n++
				}
			}
		case *ssa.Store:
			if x.Addr == ssa.Value(tmp) {
				return nil, false
			}
		}
	}
	return out, 1 == n
}

// condTable is a run of rows of a table assembled at run time from literals:
// present always (Cond nil) or from the append which adds it on.
type condTable struct {
	T    *fixedTable
	Cond ssa.Instruction
	key  ssa.Value
}

// tablesOf resolves a slice which is a literal, possibly grown by appending
// further literals on some paths, into its runs of rows, in order.
func (p *Prog) tablesOf(c ssa.Value, depth int) ([]condTable, bool) {
	if depth > 4 {
		return nil, false
	}
	c = resolveCell(c)
	switch x := c.(type) {
	case *ssa.Phi:
		var out []condTable
		have := map[ssa.Value]bool{}
		var per [][]condTable
		for _, e := range x.Edges {
			ts, ok := p.tablesOf(e, depth+1)
			if !ok {
				return nil, false
			}
			per = append(per, ts)
		}
		/* The runs every way in shares come first and are unconditional;
		the others must have been appended somewhere. */
		count := map[ssa.Value]int{}
		for _, ts := range per {
			for _, t := range ts {
				count[t.key]++
			}
		}
		for _, ts := range per {
			for _, t := range ts {
				if have[t.key] {
					continue
				}
				if count[t.key] != len(per) && nil == t.Cond {
					return nil, false
				}
				have[t.key] = true
				out = append(out, t)
			}
		}
		return out, true
	case *ssa.Call:
		bi, isB := x.Common().Value.(*ssa.Builtin)
		if !isB || "append" != bi.Name() || 2 != len(x.Common().Args) {
			return nil, false
		}
		base, ok := p.tablesOf(x.Common().Args[0], depth+1)
		if !ok {
			return nil, false
		}
		more, ok := p.tablesOf(x.Common().Args[1], depth+1)
		if !ok {
			return nil, false
		}
		for k := range more {
			if nil == more[k].Cond {
				more[k].Cond = x
			}
		}
		return append(base, more...), true
	case *ssa.Const:
		if x.IsNil() {
			return nil, true
		}
		return nil, false
	}
	t := p.fixedTableOf(c)
	if nil == t {
		return nil, false
	}
	key := c
	if sl, ok := c.(*ssa.Slice); ok {
		key = sl.X
	}
	return []condTable{{T: t, key: key}}, true
}

// fixedTableOf resolves a container (as found in cellRead) to its content.
func (p *Prog) fixedTableOf(c ssa.Value) *fixedTable {
	c = resolveCell(c)
	if sl, ok := c.(*ssa.Slice); ok && nil == sl.Low && nil == sl.High {
		c = resolveCell(sl.X)
	}
	switch x := c.(type) {
	case *ssa.Alloc:
		return tableFromArray(x, nil)
	case *ssa.Global:
		/* A package-level array. */
		if !p.ownGlobal(x) {
			return nil
		}
		return p.tableFromGlobalArray(x)
	case *ssa.UnOp:
		if token.MUL != x.Op {
			return nil
		}
		/* A copy of a whole array. */
		if _, isArr := x.Type().Underlying().(*types.Array); isArr {
			return p.fixedTableOf(x.X)
		}
		/* A package-level slice: initialised once with a literal. */
		g, ok := x.X.(*ssa.Global)
		if !ok || !p.ownGlobal(g) {
			return nil
		}
		var lit *ssa.Alloc
		n := 0
		p.eachModuleInstr(g, func(i ssa.Instruction) {
			st, isSt := i.(*ssa.Store)
			if !isSt {
				return
			}
			if st.Addr == ssa.Value(g) {
				n++
				if sl, ok := st.Val.(*ssa.Slice); ok && nil == sl.Low && nil == sl.High {
					lit, _ = sl.X.(*ssa.Alloc)
				}
			}
			/* An element written through the variable. */
			for a := st.Addr; ; {
				switch y := a.(type) {
				case *ssa.FieldAddr:
					a = y.X
					continue
				case *ssa.IndexAddr:
					if ld, ok := y.X.(*ssa.UnOp); ok && token.MUL == ld.Op && ld.X == ssa.Value(g) {
						n += 2
					}
				}
				break
			}
		})
		if 1 != n || nil == lit {
			return nil
		}
		return tableFromArray(lit, nil)
	}
	return nil
}

func (p *Prog) ownGlobal(g *ssa.Global) bool {
	return nil != g.Pkg && strings.HasPrefix(g.Pkg.Pkg.Path(), ModPath)
}

// eachModuleInstr visits the instructions of g's package initialiser and of
// every module function.
func (p *Prog) eachModuleInstr(g *ssa.Global, f func(ssa.Instruction)) {
	if ini := g.Pkg.Func("init"); nil != ini {
		eachInstr(ini, f)
	}
	for _, fn := range p.Funcs() {
		eachInstr(fn, f)
	}
}

// tableFromArray reads the element stores of a local array literal.
func tableFromArray(arr *ssa.Alloc, _ any) *fixedTable {
	at, ok := arr.Type().Underlying().(*types.Pointer).Elem().Underlying().(*types.Array)
	if !ok {
		return nil
	}
	t := &fixedTable{N: at.Len(), Cells: map[int64]map[int]ssa.Value{}}
	ok = true
	for _, ref := range *arr.Referrers() {
		ia, isIA := ref.(*ssa.IndexAddr)
		if !isIA {
			continue
		}
		k, isC := constInt(ia.Index)
		if !isC {
			continue /* a read at a loop's index */
		}
		if !t.addRowStores(k, ia) {
			ok = false
		}
	}
	if !ok || int64(len(t.Cells)) != t.N {
		return nil
	}
	return t
}

// addRowStores records what is stored through the row address ia.
func (t *fixedTable) addRowStores(k int64, ia ssa.Value) bool {
	ok := true
	put := func(f int, v ssa.Value) {
		if nil == t.Cells[k] {
			t.Cells[k] = map[int]ssa.Value{}
		}
		if _, dup := t.Cells[k][f]; dup {
			ok = false
		}
		t.Cells[k][f] = v
	}
	for _, r2 := range *ia.Referrers() {
		switch x := r2.(type) {
		case *ssa.Store:
			if x.Addr == ia {
				put(-1, x.Val)
			}
		case *ssa.FieldAddr:
			for _, r3 := range *x.Referrers() {
				if st, isSt := r3.(*ssa.Store); isSt && st.Addr == ssa.Value(x) {
					put(x.Field, st.Val)
				}
			}
		}
	}
	return ok
}

// tableFromGlobalArray: a package-level array written only by its package's
// initialiser, element by element with constant indices.
func (p *Prog) tableFromGlobalArray(g *ssa.Global) *fixedTable {
	at, ok := g.Type().Underlying().(*types.Pointer).Elem().Underlying().(*types.Array)
	if !ok {
		return nil
	}
	t := &fixedTable{N: at.Len(), Cells: map[int64]map[int]ssa.Value{}}
	ok = true
	ini := g.Pkg.Func("init")
	p.eachModuleInstr(g, func(i ssa.Instruction) {
		switch x := i.(type) {
		case *ssa.IndexAddr:
			if x.X != ssa.Value(g) {
				return
			}
			k, isC := constInt(x.Index)
			if !isC {
				/* At a variable index: it must only be read. */
				for _, ref := range *x.Referrers() {
					if writesThrough(ref, x) {
						ok = false
					}
				}
				return
			}
			if x.Parent() != ini {
				for _, ref := range *x.Referrers() {
					if writesThrough(ref, x) {
						ok = false
					}
				}
				return
			}
			if !t.addRowStores(k, x) {
				ok = false
			}
		case *ssa.Store:
			if x.Addr == ssa.Value(g) {
				ok = false /* the whole array assigned */
			}
		}
	})
	if !ok || int64(len(t.Cells)) != t.N {
		return nil
	}
	return t
}

// writesThrough: ref stores through the address a (or a field of it).
func writesThrough(ref ssa.Instruction, a ssa.Value) bool {
	switch x := ref.(type) {
	case *ssa.Store:
		return x.Addr == a
	case *ssa.FieldAddr:
		for _, r2 := range *x.Referrers() {
			if writesThrough(r2, x) {
				return true
			}
		}
	}
	return false
}

// rangesOverAll: idx is the counter of a loop which visits 0..n-1 in order:
// a phi starting at -1 (or 0), stepped by one, tested against n or against the
// length of container.
func rangesOverAll(idx ssa.Value, container ssa.Value, n int64) bool {
	if idx == allRows {
		return true
	}
	var ph *ssa.Phi
	var add *ssa.BinOp
	switch x := idx.(type) {
	case *ssa.BinOp: /* range loops: the index is counter+1 */
		if token.ADD != x.Op {
			return false
		}
		ph, _ = x.X.(*ssa.Phi)
		add = x
	case *ssa.Phi: /* three-clause loops */
		ph = x
	}
	if nil == ph {
		return false
	}
	start := int64(-99)
	for _, e := range ph.Edges {
		if k, ok := constInt(e); ok {
			start = k
			continue
		}
		b, ok := e.(*ssa.BinOp)
		if !ok || token.ADD != b.Op || b.X != ssa.Value(ph) {
			return false
		}
		if k, ok := constInt(b.Y); !ok || 1 != k {
			return false
		}
		if nil != add && b != add {
			return false
		}
	}
	if (nil != add && -1 != start) || (nil == add && 0 != start) {
		return false
	}
	var tested ssa.Value = ph
	if nil != add {
		tested = add
	}
	refs := append([]ssa.Instruction(nil), *tested.Referrers()...)
	if nil == add {
		/* A rotated loop (the body first, "i+1 < n" at its end, "0 < n"
		before it) tests the stepped value. */
		for _, e := range ph.Edges {
			if b, ok := e.(*ssa.BinOp); ok {
				refs = append(refs, *b.Referrers()...)
			}
		}
	}
	for _, ref := range refs {
		cmp, ok := ref.(*ssa.BinOp)
		if !ok || token.LSS != cmp.Op {
			continue
		}
		if cmp.X != tested {
			if b, isB := cmp.X.(*ssa.BinOp); !isB || nil != add || b.X != ssa.Value(ph) {
				continue
			}
		}
		if k, ok := constInt(cmp.Y); ok && k == n {
			return true
		}
		if lc, ok := cmp.Y.(*ssa.Call); ok {
			if b, ok := lc.Common().Value.(*ssa.Builtin); ok && "len" == b.Name() && resolveCell(lc.Common().Args[0]) == resolveCell(container) {
				return true
			}
		}
	}
	return false
}

// allRows stands for the index of a loop which the standard library's
// slices.All / slices.Values drives over every element in order.
var allRows ssa.Value = ssa.NewConst(nil, types.Typ[types.UntypedNil])

// rofElemOf: pa is the element parameter of the body of a range-over-func
// loop over slices.All(tbl) or slices.Values(tbl); returns tbl and the call
// (in the enclosing function) which runs the loop.
func rofElemOf(pa *ssa.Parameter) (ssa.Value, ssa.Instruction, bool) {
	body := pa.Parent()
	if nil == body || nil == body.Parent() || !strings.Contains(body.Synthetic, "range-over-func") {
		return nil, nil, false
	}
	var tbl ssa.Value
	var loop ssa.Instruction
	eachInstr(body.Parent(), func(i ssa.Instruction) {
		mc, ok := i.(*ssa.MakeClosure)
		if !ok || mc.Fn != ssa.Value(body) {
			return
		}
		for _, ref := range *mc.Referrers() {
			c, isCall := ref.(*ssa.Call)
			if !isCall || 1 != len(c.Common().Args) || c.Common().Args[0] != ssa.Value(mc) {
				continue
			}
			seq, isSeq := c.Common().Value.(*ssa.Call)
			if !isSeq || 1 != len(seq.Common().Args) {
				continue
			}
			n := calleeName(seq.Common())
			switch {
			case strings.HasPrefix(n, "slices.All") && 2 == len(body.Params) && pa == body.Params[1],
				strings.HasPrefix(n, "slices.Values") && 1 == len(body.Params) && pa == body.Params[0]:
				tbl, loop = seq.Common().Args[0], c
			}
		}
	})
	return tbl, loop, nil != tbl
}

// globalOnce: the value a package-level variable of the module is given by
// its one assignment (in the package initialiser), when nothing else in the
// module writes it or takes its address; nil otherwise.  v is a load of it.
func (p *Prog) globalOnce(v ssa.Value) ssa.Value {
	u, ok := v.(*ssa.UnOp)
	if !ok || token.MUL != u.Op {
		return nil
	}
	g, ok := u.X.(*ssa.Global)
	if !ok || !p.ownGlobal(g) {
		return nil
	}
	var val ssa.Value
	n := 0
	p.eachModuleInstr(g, func(i ssa.Instruction) {
		for _, op := range i.Operands(nil) {
			if nil == *op || *op != ssa.Value(g) {
				continue
			}
			switch x := i.(type) {
			case *ssa.Store:
				if x.Addr == ssa.Value(g) && x.Val != ssa.Value(g) {
					n++
					val = x.Val
					if "init" != i.Parent().Name() || i.Parent().Pkg != g.Pkg {
						n++
					}
					continue
				}
				n += 2 /* the address is stored somewhere */
			case *ssa.UnOp:
				if token.MUL != x.Op {
					n += 2
					continue
				}
				/* An element written through the variable. */
				if nil != x.Referrers() {
					for _, r := range *x.Referrers() {
						ia, isIA := r.(*ssa.IndexAddr)
						if !isIA || nil == ia.Referrers() {
							continue
						}
						for _, r2 := range *ia.Referrers() {
							if st, isSt := r2.(*ssa.Store); isSt && st.Addr == ssa.Value(ia) {
								n += 2
							}
						}
					}
				}
			case *ssa.DebugRef:
			default:
				n += 2
			}
		}
	})
	if 1 != n {
		return nil
	}
	return val
}

// sentinelError: g is a package-level error variable of the module which is
// given the result of errors.New or fmt.Errorf once, in its package's
// initialiser, and is written nowhere else: never nil after start-up.
func (p *Prog) sentinelError(g *ssa.Global) bool {
	if !p.ownGlobal(g) || !p.stableGlobal(g) {
		return false
	}
	ok := false
	p.eachModuleInstr(g, func(i ssa.Instruction) {
		if st, isSt := i.(*ssa.Store); isSt && st.Addr == ssa.Value(g) {
			if c, isCall := st.Val.(*ssa.Call); isCall {
				switch calleeName(c.Common()) {
				case "errors.New", "fmt.Errorf":
					ok = true
				}
			}
		}
	})
	return ok
}

// globalAliases: the names of the module's package-level variables which are
// the variable called name or hold the same value from start-up on (var A =
// pkg.B, in either direction, neither ever reassigned).
func (p *Prog) globalAliases(name string) map[string]bool {
	out := map[string]bool{}
	var gs []*ssa.Global
	for _, pk := range p.SSA.AllPackages() {
		if !strings.HasPrefix(pk.Pkg.Path(), ModPath) {
			continue
		}
		for _, m := range pk.Members {
			if g, ok := m.(*ssa.Global); ok {
				gs = append(gs, g)
				if g.Name() == name {
					out[name] = true
				}
			}
		}
	}
	if 0 == len(out) {
		return out
	}
	/* init: *A = *B */
	type pair struct{ a, b *ssa.Global }
	var pairs []pair
	for _, g := range gs {
		if !p.stableGlobal(g) {
			continue
		}
		ini := g.Pkg.Func("init")
		if nil == ini {
			continue
		}
		eachInstr(ini, func(i ssa.Instruction) {
			st, ok := i.(*ssa.Store)
			if !ok || st.Addr != ssa.Value(g) {
				return
			}
			if u, ok := st.Val.(*ssa.UnOp); ok && token.MUL == u.Op {
				if h, ok := u.X.(*ssa.Global); ok && p.ownGlobal(h) && p.stableGlobal(h) {
					pairs = append(pairs, pair{g, h})
				}
			}
		})
	}
	for again := true; again; {
		again = false
		for _, pr := range pairs {
			if out[pr.a.Name()] != out[pr.b.Name()] {
				out[pr.a.Name()], out[pr.b.Name()] = true, true
				again = true
			}
		}
	}
	return out
}
