#!/usr/bin/env python3
"""Re-run all 20 quick checks against every kept seeded change and refresh
meta.json's detected_by.  Each seed is applied to a scratch copy of /repo's
working tree (outside /repo and /verif), which is removed afterwards.

usage: tools/redetect.py [seed-name ...]
"""
import json, os, shutil, subprocess, sys, tempfile
from concurrent.futures import ThreadPoolExecutor

ENV = dict(os.environ, GOFLAGS="-mod=mod", GOPROXY="off", GOSUMDB="off", GOTOOLCHAIN="local", CRS_NOSELFTEST="1", CRS_NOREPLAY="1")
ENV.pop("GOWORK", None)
SEEDS = "/verif/seeded"
IDS = [f"C{i:02d}" for i in range(1, 21)]

def one(name):
    sd = os.path.join(SEEDS, name)
    meta = json.load(open(os.path.join(sd, "meta.json")))
    tmp = tempfile.mkdtemp(prefix="crs-redetect-")
    try:
        subprocess.run(["rsync", "-a", "--exclude=.git", "/repo/", tmp + "/"], check=True)
        p = subprocess.run(["patch", "-p1", "-s", "-F3", "--no-backup-if-mismatch", "-i", os.path.join(sd, "patch.diff")], cwd=tmp, stdout=subprocess.PIPE, stderr=subprocess.STDOUT)
        if p.returncode != 0:
            return name, None, "patch does not apply: " + p.stdout.decode()[:200]
        det = {}
        for cid in IDS:
            p = subprocess.run([os.environ.get("CRS_BIN", "/verif/bin/crscheck"), "-property", cid, "-repo", tmp], stdout=subprocess.PIPE, stderr=subprocess.STDOUT, env=ENV)
            if p.returncode == 1:
                lines = [l for l in p.stdout.decode().splitlines() if "] " in l and " — " in l]
                det[cid] = [l.split("] ", 1)[0].split("[")[-1] + ":" + l.split("] ", 1)[1].split(" — ")[0] for l in lines][:6]
            elif p.returncode != 0:
                det[cid] = ["ERROR exit %d" % p.returncode]
        meta["detected_by"] = det
        json.dump(meta, open(os.path.join(sd, "meta.json"), "w"), indent=1)
        return name, det, None
    finally:
        shutil.rmtree(tmp, ignore_errors=True)

def main():
    names = sys.argv[1:] or sorted(d for d in os.listdir(SEEDS) if os.path.exists(os.path.join(SEEDS, d, "meta.json")))
    missed = []
    with ThreadPoolExecutor(max_workers=5) as ex:
        for name, det, err in ex.map(one, names):
            prop = name.split("-")[0]
            if err:
                print(f"{name}: {err}"); missed.append(name); continue
            tag = "" if prop in det else ("  <-- not by its own property" if det else "  <-- UNDETECTED")
            if prop not in det:
                missed.append(name)
            print(f"{name}: {sorted(det)}{tag}", flush=True)
    print("not detected by own property:", missed)

if __name__ == "__main__":
    main()
