#!/bin/sh
# Regenerate checker/reffuncs.go (the reference table of functions and struct
# fields) from /repo.  Only after the rules have been confirmed on that tree.
set -e
cd "$(dirname "$0")/../checker"
export GOFLAGS=-mod=mod GOPROXY=off GOSUMDB=off GOTOOLCHAIN=local
unset GOWORK
../bin/crscheck -dump-reffuncs -repo "${1:-/repo}" > /tmp/reffuncs.$$
mv /tmp/reffuncs.$$ reffuncs.go
gofmt -w reffuncs.go
go build -o ../bin/crscheck .
