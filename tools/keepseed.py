#!/usr/bin/env python3
"""keepseed.py <seed dir> <name> : confirm a seeded change in a scratch worktree
of /repo (suite passes with it, demo fails with it, demo passes without it),
record which checks detect it, and keep it under /verif/seeded/<name>/."""
import json, os, shutil, subprocess, sys, tempfile, time

ENV = dict(os.environ, GOFLAGS="-mod=mod", GOPROXY="off", GOSUMDB="off", GOTOOLCHAIN="local", GOWORK="off")

def sh(cmd, cwd, timeout=600):
    p = subprocess.run(cmd, shell=True, cwd=cwd, env=ENV, stdout=subprocess.PIPE, stderr=subprocess.STDOUT, timeout=timeout)
    return p.returncode, p.stdout.decode(errors="replace")

def main():
    sd, name = sys.argv[1], sys.argv[2]
    meta = json.load(open(os.path.join(sd, "meta.json")))
    patch = os.path.join(sd, "patch.rebased.diff")
    rebased = os.path.exists(patch)
    if not rebased:
        patch = os.path.join(sd, "patch.diff")
    wt = tempfile.mkdtemp(prefix="keepseed.", dir="/tmp")
    os.rmdir(wt)
    out = {"seed": name, "property": meta["property"]}
    try:
        subprocess.check_call(["git", "-C", "/repo", "worktree", "add", "--detach", "-q", wt, "HEAD"])
        head = subprocess.check_output(["git", "-C", "/repo", "rev-parse", "--short", "HEAD"]).decode().strip()
        rc, o = sh(f"git apply '{patch}'", wt)
        if rc != 0:
            rc, o = sh(f"patch -p1 -s -F3 --no-backup-if-mismatch < '{patch}'", wt)
            if rc != 0:
                print(f"{name}: PATCH DOES NOT APPLY"); return 3
            rebased = True
        rc, o = sh("git add -N . && git diff", wt)  # -N: new files count too
        applied = o
        rc, o = sh("go build ./... && go test -vet=off -count=1 ./...", wt)
        out["suite_with_patch"] = "pass" if rc == 0 else "FAIL"
        if rc != 0:
            print(f"{name}: SUITE FAILS WITH PATCH\n{o[-800:]}"); return 4
        # checks against the patched worktree
        det = {}
        ids = [f"C{i:02d}" for i in range(1, 21)]
        for cid in ids:
            p = subprocess.run([os.environ.get("CRS_BIN", "/verif/bin/crscheck"), "-property", cid, "-repo", wt], stdout=subprocess.PIPE, stderr=subprocess.STDOUT, env=ENV)
            if p.returncode == 1:
                lines = [l for l in p.stdout.decode().splitlines() if "] " in l and " — " in l]
                det[cid] = [l.split("] ", 1)[0].split("[")[-1] + ":" + l.split("] ", 1)[1].split(" — ")[0] for l in lines][:6]
            elif p.returncode != 0:
                det[cid] = ["ERROR exit %d" % p.returncode]
        out["detected_by"] = det
        # demo with patch
        demo_src = os.path.join(sd, meta["demo_file"])
        if not os.path.exists(demo_src):
            demo_src = os.path.join(sd, os.path.basename(meta["demo_file"]))
        place = os.path.join(wt, meta["demo_place_at"])
        if os.path.isdir(place):
            place = os.path.join(place, os.path.basename(meta["demo_file"]))
        os.makedirs(os.path.dirname(place), exist_ok=True)
        shutil.copy(demo_src, place)
        rc1, o1 = sh(meta["demo_cmd"], wt, timeout=900)
        out["demo_with_patch"] = "fails" if rc1 != 0 else "PASSES"
        # demo without patch
        open(os.path.join(wt, ".applied.diff"), "w").write(applied)
        # (files the patch added are removed as well; the demo stays)
        rel = os.path.relpath(place, wt)
        sh(f"rm -f .applied.diff; git reset -q; git checkout -- . ; git clean -fdq -e '{rel}'", wt)
        rc2, o2 = sh(meta["demo_cmd"], wt, timeout=900)
        out["demo_without_patch"] = "passes" if rc2 == 0 else "FAILS"
        ok = rc1 != 0 and rc2 == 0
        dst = os.path.join("/verif/seeded", name)
        if ok:
            os.makedirs(dst, exist_ok=True)
            open(os.path.join(dst, "patch.diff"), "w").write(applied)
            shutil.copy(demo_src, os.path.join(dst, os.path.basename(demo_src)))
            m = {
                "property": meta["property"],
                "breaks": meta.get("summary", ""),
                "needs_to_manifest": meta.get("needs_to_manifest", ""),
                "files_changed": meta.get("files_changed", []),
                "demo_file": os.path.basename(demo_src),
                "demo_place_at": meta["demo_place_at"],
                "demo_cmd": meta["demo_cmd"],
                "base_commit": head,
                "rebased_onto_head": rebased,
                "confirmed": {
                    "what_i_ran": "scratch worktree of /repo HEAD: git apply patch.diff; go build ./... && go test -vet=off -count=1 ./...; demo_cmd with the patch; git checkout -- .; demo_cmd without the patch; crscheck -property Cnn -repo <worktree> for all 20 properties with the patch applied",
                    "suite_with_patch": out["suite_with_patch"],
                    "demo_with_patch": out["demo_with_patch"],
                    "demo_without_patch": out["demo_without_patch"],
                    "demo_output_with_patch_tail": o1[-600:],
                },
                "detected_by": det,
                "source": "independent sub-agent given only the property text and a scratch worktree",
            }
            json.dump(m, open(os.path.join(dst, "meta.json"), "w"), indent=1)
        print(f"{name}: suite={out['suite_with_patch']} demo+patch={out['demo_with_patch']} demo-clean={out['demo_without_patch']} kept={ok} detected_by={sorted(det)}")
        return 0 if ok else 5
    finally:
        subprocess.call(["git", "-C", "/repo", "worktree", "remove", "--force", wt], stdout=subprocess.DEVNULL, stderr=subprocess.DEVNULL)
        shutil.rmtree(wt, ignore_errors=True)

sys.exit(main())
