#!/bin/sh
# tryseed.sh <patch.diff> <Cnn>... : apply a seeded change to /repo, run the
# given checks, and undo it straight afterwards.
patch=$1; shift
cd /repo || exit 2
if ! git diff --quiet; then echo "/repo is dirty"; exit 2; fi
if ! git apply "$patch" 2>/dev/null; then
	# The tree has moved since the seed was made: retry with fuzz.
	patch -p1 -s -F3 --no-backup-if-mismatch < "$patch" || { git checkout -- . ; git clean -fdq; echo "PATCH DOES NOT APPLY: $patch"; exit 3; }
	export GOFLAGS=-mod=mod GOPROXY=off GOSUMDB=off GOTOOLCHAIN=local
	go build ./... || { git checkout -- . ; git clean -fdq; echo "PATCHED TREE DOES NOT BUILD"; exit 3; }
fi
for id in "$@"; do
	out=$(CRS_NOSELFTEST=1 /verif/check "$id" quick 2>&1); st=$?
	echo "== $id exit=$st"
	echo "$out" | grep -v "^KNOWN-FINDING" | head -${TRYSEED_LINES:-6}
done
git checkout -- . && git clean -fdq
