#!/usr/bin/env python3
"""Re-run all 20 quick checks against every kept behaviour-preserving change
(/verif/benign/<name>) on scratch copies of /repo's tree and refresh the
recorded alarms.  usage: tools/rebenign.py [name ...]"""
import json, os, shutil, subprocess, sys, tempfile
from concurrent.futures import ThreadPoolExecutor
ENV = dict(os.environ, GOFLAGS="-mod=mod", GOPROXY="off", GOSUMDB="off", GOTOOLCHAIN="local", CRS_NOSELFTEST="1", CRS_NOREPLAY="1")
ENV.pop("GOWORK", None)
B = "/verif/benign"
IDS = [f"C{i:02d}" for i in range(1, 21)]
def one(name):
    sd = os.path.join(B, name)
    meta = json.load(open(os.path.join(sd, "meta.json")))
    tmp = tempfile.mkdtemp(prefix="crs-reben-")
    try:
        subprocess.run(["rsync", "-a", "--exclude=.git", "/repo/", tmp + "/"], check=True)
        p = subprocess.run(["patch", "-p1", "-s", "-F3", "--no-backup-if-mismatch", "-i", os.path.join(sd, "patch.diff")], cwd=tmp, stdout=subprocess.PIPE, stderr=subprocess.STDOUT)
        if p.returncode != 0:
            return name, None
        alarms = {}
        for cid in IDS:
            p = subprocess.run([os.environ.get("CRS_BIN", "/verif/bin/crscheck"), "-property", cid, "-repo", tmp], stdout=subprocess.PIPE, stderr=subprocess.STDOUT, env=ENV)
            if p.returncode != 0:
                lines = [l.replace(tmp + "/", "") for l in p.stdout.decode().splitlines() if ("] " in l and " — " in l) or l.startswith("ERROR") or "panic" in l or "fatal error" in l]
                alarms[cid] = lines[:8] or ["exit %d" % p.returncode]
        meta["alarms"] = alarms
        json.dump(meta, open(os.path.join(sd, "meta.json"), "w"), indent=1)
        return name, alarms
    finally:
        shutil.rmtree(tmp, ignore_errors=True)
names = sys.argv[1:] or sorted(os.listdir(B))
bad = 0
with ThreadPoolExecutor(max_workers=5) as ex:
    for name, alarms in ex.map(one, names):
        if alarms is None:
            print(name, "PATCH DOES NOT APPLY"); continue
        if alarms: bad += 1
        print(name, {k: len(v) for k, v in alarms.items()} if alarms else "silent", flush=True)
print(f"{bad} of {len(names)} benign changes raise an alarm")
