#!/bin/sh
# tools/benscratch.sh <benign-name>: scratch copy of /repo with the change applied; prints the directory (remove it yourself).
t=$(mktemp -d /tmp/crs-bs-XXXXXX)
rsync -a --exclude=.git /repo/ $t/
(cd $t && patch -p1 -s -F3 --no-backup-if-mismatch -i /verif/benign/$1/patch.diff) || exit 3
echo $t
