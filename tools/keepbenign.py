#!/usr/bin/env python3
"""Confirm and keep a behaviour-preserving change produced by an independent
agent: scratch worktree of /repo HEAD, apply, build, run the existing suite,
run all 20 quick checks against it.  Kept under /verif/benign/<name>/ with the
alarms (if any) recorded; an alarm is a false alarm of the checker unless the
change turns out to break the property after all.

usage: tools/keepbenign.py <dir with patch.diff + meta.json> <name>
"""
import json, os, shutil, subprocess, sys, tempfile

ENV = dict(os.environ, GOFLAGS="-mod=mod", GOPROXY="off", GOSUMDB="off", GOTOOLCHAIN="local", CRS_NOSELFTEST="1", CRS_NOREPLAY="1")
ENV.pop("GOWORK", None)

def sh(cmd, cwd, timeout=900):
    p = subprocess.run(cmd, shell=True, cwd=cwd, stdout=subprocess.PIPE, stderr=subprocess.STDOUT, env=ENV, timeout=timeout)
    return p.returncode, p.stdout.decode(errors="replace")

def main():
    sd, name = sys.argv[1], sys.argv[2]
    meta = json.load(open(os.path.join(sd, "meta.json")))
    tmp = tempfile.mkdtemp(prefix="crs-benign-")
    try:
        subprocess.run(["rsync", "-a", "--exclude=.git", "--exclude=_ben", "--exclude=_seed", "/repo/", tmp + "/"], check=True)
        rc, o = sh("patch -p1 -s -F3 --no-backup-if-mismatch -i " + os.path.join(os.path.abspath(sd), "patch.diff"), tmp)
        if rc != 0:
            print(f"{name}: PATCH DOES NOT APPLY: {o[:300]}"); return 3
        rc, o = sh("go build ./... && go test -vet=off -count=1 ./...", tmp)
        if rc != 0:
            print(f"{name}: SUITE FAILS WITH PATCH\n{o[-600:]}"); return 4
        alarms = {}
        for cid in [f"C{i:02d}" for i in range(1, 21)]:
            p = subprocess.run([os.environ.get("CRS_BIN", "/verif/bin/crscheck"), "-property", cid, "-repo", tmp], stdout=subprocess.PIPE, stderr=subprocess.STDOUT, env=ENV)
            if p.returncode != 0:
                lines = [l.replace(tmp + "/", "") for l in p.stdout.decode().splitlines() if ("] " in l and " — " in l) or l.startswith("ERROR")]
                alarms[cid] = lines[:8] or ["exit %d" % p.returncode]
        dst = os.path.join("/verif/benign", name)
        os.makedirs(dst, exist_ok=True)
        shutil.copy(os.path.join(sd, "patch.diff"), os.path.join(dst, "patch.diff"))
        meta["confirmed"] = {"suite_with_patch": "pass", "what_i_ran": "scratch copy of /repo's tree: patch, go build ./... && go test -vet=off -count=1 ./..., crscheck -property Cnn -repo <copy> for all 20"}
        meta["alarms"] = alarms
        meta["source"] = "independent sub-agent given only the property text and a scratch worktree, asked for behaviour-preserving refactors"
        json.dump(meta, open(os.path.join(dst, "meta.json"), "w"), indent=1)
        print(f"{name}: suite=pass alarms={ {k: len(v) for k, v in alarms.items()} }")
        for k, v in alarms.items():
            for l in v[:4]:
                print("   ", k, l[:260])
        return 0
    finally:
        shutil.rmtree(tmp, ignore_errors=True)

if __name__ == "__main__":
    sys.exit(main())
