#!/bin/sh
# tryseedx.sh <patch.diff> <Cnn>... : like tryseed.sh but on a scratch copy of
# /repo's working tree (so that it can run beside the batteries).
patch=$1; shift
tmp=$(mktemp -d /tmp/crs-tryx-XXXXXX)
rsync -a --exclude=.git /repo/ "$tmp/"
( cd "$tmp" && patch -p1 -s -F3 --no-backup-if-mismatch < "$patch" ) || { rm -rf "$tmp"; echo "PATCH DOES NOT APPLY"; exit 3; }
export GOFLAGS=-mod=mod GOPROXY=off GOSUMDB=off GOTOOLCHAIN=local CRS_NOSELFTEST=1 CRS_NOREPLAY=1
for id in "$@"; do
	out=$(${CRS_BIN:-/verif/bin/crscheck} -property "$id" -repo "$tmp" 2>&1); st=$?
	echo "== $id exit=$st"
	echo "$out" | grep -v "^KNOWN-FINDING" | sed "s#$tmp/##g" | head -${TRYSEED_LINES:-6}
done
rm -rf "$tmp"
