#!/bin/sh
# tools/trybenign.sh <benign-name> Cnn...: apply /verif/benign/<name>/patch.diff
# to a scratch copy of /repo, run the named checks on it (all 20 if none).
n=$1; shift
t=$(mktemp -d /tmp/crs-tb-XXXXXX)
rsync -a --exclude=.git /repo/ $t/
(cd $t && patch -p1 -s -F3 --no-backup-if-mismatch -i /verif/benign/$n/patch.diff) || { rm -rf $t; exit 3; }
[ $# -eq 0 ] && set -- C01 C02 C03 C04 C05 C06 C07 C08 C09 C10 C11 C12 C13 C14 C15 C16 C17 C18 C19 C20
for id in "$@"; do
  CRS_NOSELFTEST=1 ${CRS_BIN:-/verif/bin/crscheck} -property $id -repo $t $CRS_EXTRA 2>&1 | sed "s#$t/##g" | grep -v "^  discharged" | grep "\] \|ERROR\|FLATTEN\|panic\|^C[0-9][0-9] \|sanity\|Error" | cut -c1-${CRS_W:-300}
done
rm -rf $t
