#!/usr/bin/env python3
"""Generate /verif/MANIFEST.json from the table below (kept in one place so the
manifest stays valid while properties are added)."""
import json, os, sys

HERE = os.path.dirname(os.path.dirname(os.path.abspath(__file__)))

NOTE = ("go/types + go/ssa (x/tools v0.29.0, used from the local copy checker/third_party/xtools with five added files) "
        "model the program faithfully; the behaviour-preserving normalisation of the SSA the rules read (helper folding "
        "against a reference table, rename resolution, canonical spellings, lifting of read-only captured variables, "
        "capture by value, unrolling of loops over small literal tables, scalar replacement of local structs, argument promotion, lowering of result-watching deferred literals, threading of && conditions, constant folding; DESIGN.md section 2a) is part "
        "of the trusted base; documented semantics of the Go "
        "standard library, net/http, crypto/tls, os/exec, text/template and the module's dependencies; one build "
        "configuration (linux/amd64; the module has no build-tagged files). The check decides the named structural "
        "clauses, which are necessary conditions of the behavioural property, not the behaviour itself.")

# id -> (technique, text, design_ref) ; absent => not applicable with reason in NA.
CLAIMED = {}
NA = {}

def claim(i, technique, text, ref=None):
    CLAIMED[i] = (technique, text, ref or ("DESIGN.md §4 " + i))

exec(open(os.path.join(HERE, "tools", "claims.py")).read())

props = [json.loads(l) for l in open(os.path.join(HERE, "properties.jsonl"))]
checks, na = [], []
for p in props:
    i = p["id"]
    if i in CLAIMED:
        tech, text, ref = CLAIMED[i]
        checks.append({
            "property_id": i,
            "quick_cmd": f"./check {i} quick",
            "thorough_cmd": f"./check {i} thorough",
            "evidence_file": f"/verif/evidence/{i}.json",
            "replay_cmd_template": f"./check {i} replay {{path}}",
            "engine": "crscheck",
            "level_claimed": {"category": "other", "text": text, "design_ref": ref},
            "level_note": NOTE,
            "technique": tech,
        })
    else:
        na.append({"property_id": i, "reason": NA.get(i, "no sound static rule built for this property yet; see DESIGN.md")})

m = {
    "version": 1,
    "setup_cmd": "cd /verif/checker && GOFLAGS=-mod=mod GOPROXY=off GOSUMDB=off GOTOOLCHAIN=local GOWORK=off go build -o /verif/bin/crscheck .",
    "hooks": {
        "guard": "verif",
        "enable": "none needed: the checks are static and read /repo's working tree as it is; no hook or instrumentation was added to the repository",
        "baseline_off_cmd": "cd /repo && GOFLAGS=-mod=mod GOPROXY=off GOSUMDB=off GOTOOLCHAIN=local go test -json -vet=off -count=1 -timeout 25m ./...",
        "source_commits": [],
        "add_only": True,
    },
    "engines": [{
        "name": "crscheck",
        "path": "/verif/checker",
        "serves_properties": sorted(CLAIMED),
        "kind_free_text": "repository-specific static analyser over go/packages + go/ssa (x/tools v0.29.0): a behaviour-preserving SSA normalisation pass, then CFG path rules, dominance, value-flow slices, who-may-write/call tables, lockset, finite predicate-abstraction decision tables, template/shell-context parsing; in-memory overlay mutants, the seeded breaking changes and the behaviour-preserving changes kept under /verif/seeded and /verif/benign as self-tests of the checker (thorough tier)",
    }],
    "checks": checks,
    "notes": "All checks are static analyses of /repo's current working tree (technique family: static analysis). Exit 2 means the checker could not run (load/type error), never a claim. Genuine defects found and repaired are listed in known_findings.txt as fixed: entries with demonstrations under defects/.",
    "not_applicable": na,
}
json.dump(m, open(os.path.join(HERE, "MANIFEST.json"), "w"), indent=1)
print(f"{len(checks)} checks, {len(na)} not applicable")
